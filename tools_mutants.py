"""Sensitivity self-test: break the property on purpose, confirm the check reports a VIOLATION.

Each mutant is a text replacement in /repo (applied, checked, reverted with
`git checkout`).  Usage:
    python3 tools_mutants.py [name ...]        run the named (or all) mutants against their checks
Results go to /verif/notes/sensitivity.json.  Never leaves /repo modified.
"""
import json
import os
import subprocess
import sys
import time

REPO = '/repo'
MUTANTS = [
    # name, checks expected to catch it, file, old, new
    ('c01-parsefile-catch-only-syntaxerror', ['C01'], 'pydoctor/astbuilder.py',
     "            except (SyntaxError, ValueError) as e:\n                ctx.report(f\"cannot parse file, {e}\")",
     "            except SyntaxError as e:\n                ctx.report(f\"cannot parse file, {e}\")"),
    ('c01-unparsable-not-reported', ['C01'], 'pydoctor/astbuilder.py',
     "            except (SyntaxError, ValueError) as e:\n                ctx.report(f\"cannot parse file, {e}\")",
     "            except (SyntaxError, ValueError) as e:\n                pass"),
    ('c02-reparent-pre-no-recursion', ['C02', 'C07'], 'pydoctor/model.py',
     "        del self.system.allobjects[self.fullName()]\n        for o in self.contents.values():\n            o._handle_reparenting_pre()",
     "        del self.system.allobjects[self.fullName()]"),
    ('c02-handleduplicate-no-readd-subtree', ['C02'], 'pydoctor/model.py',
     "            self.allobjects[o.fullName()] = o\n            for c in o.contents.values():\n                readd(c)",
     "            self.allobjects[o.fullName()] = o"),
    ('c02-subclasses-appended-twice', ['C02'], 'pydoctor/model.py',
     "                b.subclasses.append(cls)",
     "                b.subclasses.append(cls)\n                if len(cls.baseobjects) > 1: b.subclasses.append(cls)"),
    ('c04-relative-import-level-in-package', ['C04', 'C06', 'C07'], 'pydoctor/astbuilder.py',
     "            if isinstance(ctx.module, model.Package):\n                level -= 1",
     "            if isinstance(ctx.module, model.Package) and ctx.module.parent is None:\n                level -= 1"),
    ('c04-import-as-ignored-for-dotted', ['C04'], 'pydoctor/astbuilder.py',
     "            if asname is None:\n                # we're keeping track of all defined names\n                asname = targetname = targetname.split('.')[0]\n            _localNameToFullName[asname] = targetname",
     "            if asname is None:\n                # we're keeping track of all defined names\n                asname = targetname = targetname.split('.')[0]\n            elif '.' in targetname and targetname.count('.') > 1:\n                targetname = targetname.rsplit('.', 1)[0]\n            _localNameToFullName[asname] = targetname"),
    ('c05-merge-scans-heads-right-to-left', ['C05'], 'pydoctor/mro.py', None, None),   # filled below
    ('c05-find-uses-allbases', ['C05'], 'pydoctor/model.py',
     "        for base in self.mro():\n            obj: Optional[Documentable] = base.contents.get(name)",
     "        for base in self.allbases(include_self=True):\n            obj: Optional[Documentable] = base.contents.get(name)"),
    ('c06-no-second-pass-resolution', ['C06', 'C05', 'C04'], 'pydoctor/model.py',
     "                    if not isinstance(resolved_base, Class):\n                        resolved_base = o.parent.resolveName(str_base)\n                    if isinstance(resolved_base, Class):",
     "                    resolved_base = None\n                    if isinstance(resolved_base, Class):"),
    ('c06-importnames-no-ondemand-processing', ['C06', 'C07', 'C04'], 'pydoctor/astbuilder.py',
     "        # Process the module we're importing from.\n        mod = self.system.getProcessedModule(modname)",
     "        # Process the module we're importing from.\n        mod = self.system.allobjects.get(modname)\n        if not isinstance(mod, model.Module) or mod.state is not model.ProcessingState.PROCESSED: mod = None"),
    ('c06-reparent-leaves-no-alias', ['C06', 'C07', 'C04'], 'pydoctor/model.py',
     "        old_parent._localNameToFullName_map[old_name] = self.fullName()\n", ""),
    ('c07-reexport-ignores-origin-all', ['C07'], 'pydoctor/astbuilder.py',
     "                if origin_module.all is None or origin_name not in origin_module.all:\n                    # A top-level",
     "                if True:\n                    # A top-level"),
    ('c07-importall-skips-reexport', ['C07'], 'pydoctor/astbuilder.py',
     "            if self._handleReExport(exports, name, name, mod) is True:\n                continue\n\n            _localNameToFullName[name] = expandName(name)",
     "            _localNameToFullName[name] = expandName(name)"),
    ('c08-parse-guard-dropped', ['C08'], 'pydoctor/epydoc2stan.py',
     "    except (Exception, SystemExit) as e:\n        # SystemExit",
     "    except (ParseError, SystemExit) as e:\n        # SystemExit"),
    ('c08-safe-to-stan-catches-only-parseerror', ['C08'], 'pydoctor/epydoc2stan.py',
     "        stan = parsed_doc.to_stan(linker)\n    except Exception as e:",
     "        stan = parsed_doc.to_stan(linker)\n    except ParseError as e:"),
    ('c08-fallback-returns-broken', ['C08'], 'pydoctor/epydoc2stan.py',
     "    if ctx.docstring is None:\n        stan = BROKEN\n    else:",
     "    if ctx.docstring is None or len(errs) > 0:\n        stan = BROKEN\n    else:"),
    ('c17-zlib-error-not-handled', ['C17'], 'pydoctor/sphinx.py',
     "        except zlib.error:\n            self.error(\n                'sphinx',\n                'Failed to uncompress inventory from %s' % (base_url,))\n            return ''",
     "        except MemoryError:\n            return ''"),
    ('c17-location-column-off-by-one', ['C17'], 'pydoctor/sphinx.py',
     "        location = parts[prio_idx + 1]", "        location = parts[prio_idx + 1] if prio_idx == 2 else parts[prio_idx]"),
    ('c17-writer-does-not-filter-invisible', ['C17'], 'pydoctor/sphinx.py',
     "            if not obj.isVisible:\n                continue\n            content.append(self._generateLine(obj).encode('utf-8'))",
     "            if obj.privacyClass.name == 'HIDDEN' and not obj.contents:\n                continue\n            content.append(self._generateLine(obj).encode('utf-8'))"),
    ('c18-addpackage-drops-sorted', ['C18', 'C06'], 'pydoctor/model.py',
     "        for path in sorted(package_path.iterdir()):", "        for path in package_path.iterdir():"),
    ('c18-source-date-epoch-ignored-when-tz', ['C18'], 'pydoctor/driver.py',
     "        system.buildtime = datetime.datetime.utcfromtimestamp(\n            int(os.environ['SOURCE_DATE_EPOCH']))",
     "        system.buildtime = datetime.datetime.fromtimestamp(\n            int(os.environ['SOURCE_DATE_EPOCH']))"),
    ('c18-root-names-set-again', ['C18'], 'pydoctor/model.py',
     "        return tuple(dict.fromkeys(obj.name for obj in self.rootobjects))", "        return {obj.name for obj in self.rootobjects}"),
]


def _fill() -> None:
    src = open(os.path.join(REPO, 'pydoctor/mro.py')).read()
    for i, m in enumerate(MUTANTS):
        if m[0] == 'c05-merge-scans-heads-right-to-left':
            old = "        for head in linearizations.heads:"
            new = "        for head in reversed(linearizations.heads):"
            MUTANTS[i] = (m[0], m[1], m[2], old, new)


def run(cmd, **kw):
    return subprocess.run(cmd, shell=True, capture_output=True, text=True, **kw)


def main() -> int:
    _fill()
    want = set(sys.argv[1:])
    os.makedirs('/verif/notes', exist_ok=True)
    os.makedirs('/verif/mutants', exist_ok=True)
    path = '/verif/notes/sensitivity.json'
    try:
        results = json.load(open(path))
    except Exception:
        results = {}
    if run(f'git -C {REPO} status --porcelain').stdout.strip():
        print('refusing: /repo has uncommitted changes')
        return 2
    for name, checks, file, old, new in MUTANTS:
        if want and name not in want:
            continue
        p = os.path.join(REPO, file)
        src = open(p).read()
        if src.count(old) != 1:
            print(f'{name}: pattern found {src.count(old)} times -- mutant needs updating')
            results[name] = {'error': 'pattern not found'}
            continue
        try:
            open(p, 'w').write(src.replace(old, new))
            diff = run(f'git -C {REPO} diff').stdout
            open(f'/verif/mutants/{name}.diff', 'w').write(diff)
            comp = run(f'/venv/bin/python -B -c "import sys; sys.path.insert(0, \'{REPO}\'); import pydoctor.driver"')
            res = {'compiles': comp.returncode == 0, 'checks': {}}
            for c in checks:
                t0 = time.time()
                r = run(f'/venv/bin/python -B /verif/check.py {c} --tier quick --no-evidence --no-minimise', cwd='/verif')
                sigs = [l.split('violation signature: ')[1] for l in r.stdout.splitlines() if l.startswith('violation signature: ')]
                res['checks'][c] = {'exit': r.returncode, 'signatures': sigs[:6], 'wall_s': round(time.time() - t0, 1),
                                    'tail': r.stdout.strip().splitlines()[-1:] }
                print(f'{name}: {c} exit={r.returncode} {sigs[:2]}')
            results[name] = res
        finally:
            run(f'git -C {REPO} checkout -- .')
            run('rm -f /verif/replays/*.json')
        json.dump(results, open(path, 'w'), indent=1, sort_keys=True)
    caught = sum(1 for r in results.values() if any(c.get('exit') == 1 for c in r.get('checks', {}).values()))
    print(f'{caught}/{len(results)} mutants caught by at least one check')
    return 0


if __name__ == '__main__':
    sys.exit(main())
