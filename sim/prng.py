"""Labelled counter-mode PRNG.

One integer (VERIF_SEED) decides everything.  A stream is identified by
``(seed, label)``; drawing from one stream never shifts another, so adding a
decision point or changing one decision during minimisation leaves every other
decision as it was.  Nothing here reads a clock, ``random``, ``hash()`` or
``id()``.
"""
from __future__ import annotations

import hashlib
import struct
from typing import Any, List, Sequence, TypeVar

T = TypeVar('T')


def derive(seed: int, *labels: object) -> int:
    """A 64-bit seed derived from ``seed`` and labels (stable across processes)."""
    h = hashlib.blake2b(digest_size=8)
    h.update(str(int(seed)).encode())
    for lab in labels:
        h.update(b'\x00')
        h.update(str(lab).encode())
    return struct.unpack('<Q', h.digest())[0]


class Rng:
    __slots__ = ('_key', '_ctr', 'label')

    def __init__(self, seed: int, label: str = '') -> None:
        self.label = label
        self._key = hashlib.blake2b(
            f'{int(seed)}\x00{label}'.encode(), digest_size=16).digest()
        self._ctr = 0

    def sub(self, label: object) -> 'Rng':
        r = Rng.__new__(Rng)
        r.label = f'{self.label}/{label}'
        r._key = hashlib.blake2b(
            self._key + b'\x00' + str(label).encode(), digest_size=16).digest()
        r._ctr = 0
        return r

    def u64(self) -> int:
        d = hashlib.blake2b(struct.pack('<Q', self._ctr), key=self._key,
                            digest_size=8).digest()
        self._ctr += 1
        return struct.unpack('<Q', d)[0]

    def below(self, n: int) -> int:
        """Uniform integer in [0, n)."""
        if n <= 0:
            raise ValueError('below(%r)' % (n,))
        # rejection sampling to stay exactly uniform
        lim = (1 << 64) - ((1 << 64) % n)
        while True:
            v = self.u64()
            if v < lim:
                return v % n

    def randint(self, a: int, b: int) -> int:
        return a + self.below(b - a + 1)

    def random(self) -> float:
        return (self.u64() >> 11) / float(1 << 53)

    def chance(self, p: float) -> bool:
        return self.random() < p

    def choice(self, seq: Sequence[T]) -> T:
        return seq[self.below(len(seq))]

    def weighted(self, pairs: Sequence[tuple]) -> Any:
        """pairs = [(item, weight), ...]"""
        tot = sum(w for _, w in pairs)
        x = self.random() * tot
        acc = 0.0
        for item, w in pairs:
            acc += w
            if x < acc:
                return item
        return pairs[-1][0]

    def shuffle(self, lst: List[T]) -> List[T]:
        """In-place Fisher-Yates; returns the list."""
        for i in range(len(lst) - 1, 0, -1):
            j = self.below(i + 1)
            lst[i], lst[j] = lst[j], lst[i]
        return lst

    def shuffled(self, seq: Sequence[T]) -> List[T]:
        return self.shuffle(list(seq))

    def sample(self, seq: Sequence[T], k: int) -> List[T]:
        k = min(k, len(seq))
        return self.shuffled(seq)[:k]
