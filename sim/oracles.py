"""Oracles evaluated on the final state of a model build.

None of this code imports pydoctor's decision logic; it only reads the public
attributes of the resulting objects (``allobjects``, ``rootobjects``, ``contents``,
``parent``, ``kind``, ``mro()``, ``baseobjects``, ``subclasses``, ``url`` ...) and
calls the public query API (``resolveName``, ``find``, ``get_docstring``).
"""
from __future__ import annotations

import re
from typing import Any, Dict, Iterable, List, Optional, Set, Tuple

from . import world as W
from .pytruth import ref_mro
from .simsystem import model, marker_of, ident

Viol = Tuple[str, str]   # (signature-suffix, detail)

DUP_RE = re.compile(r'^(.*) (\d+)$')
K = model.DocumentableKind


# --------------------------------------------------------------------------
# C02

def superseded(o: model.Documentable) -> bool:
    """Is ``o`` an older definition superseded by a later one of the same name?

    pydoctor renames such an object to ``"<name> <n>"`` (a name no Python
    definition can have).  The later definition may itself have been moved away
    by a re-export since, so it is not required to still hold the name."""
    m = DUP_RE.match(o.name)
    if not m or o.parent is None:
        return False
    return o.parent.contents.get(o.name) is not o


def under_superseded(o: model.Documentable) -> bool:
    p: Optional[model.Documentable] = o
    while p is not None:
        if superseded(p):
            return True
        p = p.parent
    return False


def check_tree(system: model.System) -> List[Viol]:
    out: List[Viol] = []
    allobjects = system.allobjects
    # I1
    seen: Dict[int, str] = {}
    for k, o in allobjects.items():
        if o.fullName() != k:
            # is the stale key that of a superseded duplicate (or of something below one)?  Those hang off their
            # parent without being in its contents, so a move of the parent does not see them.
            sup = int(any(DUP_RE.match(part) for part in k.split('.')))
            out.append((f'I1-key-mismatch,type={_t(o)},superseded={sup}', f'registered as {k!r} but fullName() is {o.fullName()!r}'))
        if id(o) in seen:
            out.append(('I1-two-keys,type=' + _t(o), f'{o!r} registered as {seen[id(o)]!r} and {k!r}'))
        seen[id(o)] = k
    # I2
    roots = system.rootobjects
    if len({id(r) for r in roots}) != len(roots):
        out.append(('I2-root-twice', f'rootobjects has repeats: {roots!r}'))
    for k, o in allobjects.items():
        if o.parent is None:
            if not any(r is o for r in roots):
                out.append(('I2-orphan-root,type=' + _t(o), f'{k!r} has no parent and is not a root'))
            continue
        if o.parent.contents.get(o.name) is not o and not superseded(o):
            cur = o.parent.contents.get(o.name)
            out.append((f'I2-not-parents-entry,type={_t(o)},entry={"none" if cur is None else _t(cur)}',
                        f'{k!r} is not contents[{o.name!r}] of its parent {o.parent!r} (entry: {cur!r})'))
    # I3
    reach: Dict[int, model.Documentable] = {}
    stack = list(roots)
    while stack:
        o = stack.pop()
        if id(o) in reach:
            continue
        reach[id(o)] = o
        stack.extend(o.contents.values())
    for o in reach.values():
        if allobjects.get(o.fullName()) is not o:
            out.append(('I3-reachable-unregistered,type=' + _t(o), f'{o!r} is reachable from a root but not registered under its name'))
    for k, o in allobjects.items():
        if id(o) not in reach and not under_superseded(o):
            cause = 'not-in-parent'
            if o.parent is not None and id(o.parent) not in reach:
                cause = 'parent-unreachable'
                a = o.parent
                while a is not None:
                    if allobjects.get(a.fullName()) is not a:
                        # the registry entry of an ancestor is held by another object
                        cause = 'ancestor-displaced-by=' + _t(allobjects.get(a.fullName()))
                        break
                    a = a.parent
            out.append((f'I3-unreachable,type={_t(o)},cause={cause}', f'{k!r} is registered but cannot be reached from any root'))
    # I3b: whatever hangs below a registered object is registered too (this is what keeps
    # the subtree of a superseded definition coherent although no root reaches it)
    for k, o in list(allobjects.items()):
        for cn, c in o.contents.items():
            if allobjects.get(c.fullName()) is not c:
                out.append(('I3b-child-unregistered,type=' + _t(c), f'{c!r} is contents[{cn!r}] of registered {k!r} but is not registered under its name'))
            if c.parent is not o:
                out.append(('I3b-child-parent,type=' + _t(c), f'{c!r} is contents[{cn!r}] of {k!r} but its parent is {c.parent!r}'))
            if c.name != cn:
                out.append(('I3b-child-name,type=' + _t(c), f'contents[{cn!r}] of {k!r} is named {c.name!r}'))
    # I4
    methodkinds = (K.METHOD, K.CLASS_METHOD, K.STATIC_METHOD)
    for k, o in allobjects.items():
        if id(o) not in reach:
            continue
        if o.kind is None:
            out.append(('I4-kind-none,type=' + _t(o), f'{k!r} has kind None'))
        if isinstance(o, model.Function):
            if isinstance(o.parent, model.Class) and o.kind not in methodkinds:
                out.append((f'I4-function-in-class-kind={o.kind and o.kind.name}', f'{k!r} sits in a class but has kind {o.kind}'))
            if isinstance(o.parent, model.Module) and o.kind in methodkinds:
                # was it defined there, or is it a method that a re-export moved out of its class (the alias it left
                # behind in the class tells)?
                moved = any(isinstance(c, model.Class) and k in c._localNameToFullName_map.values() for c in allobjects.values())
                if not moved:
                    # moved more than once: the alias in the class names the first stop only; the harness logged every move
                    from . import simsystem as _ss
                    me = _ss.ident(o)
                    first = next((e for e in getattr(system, 'sim_log', []) if e[0] == 'reparent' and e[1] == me), None)
                    if first is not None:
                        moved = bool(first[4])      # its parent at the time of the first move was a class
                out.append((f'I4-method-in-module,kind={o.kind.name},origin={"moved-from-class" if moved else "defined-here"}',
                            f'{k!r} sits in a module but has kind {o.kind}'))
        if isinstance(o, model.Module):
            if o.parent is not None and not isinstance(o.parent, model.Package):
                out.append(('I4-module-in-nonpackage', f'module {k!r} sits in {o.parent!r}'))
        if isinstance(o, (model.Function, model.Attribute)) and o.contents:
            out.append(('I4-leaf-with-children,type=' + _t(o), f'{k!r} has children {list(o.contents)}'))
        if isinstance(o, model.Class) and isinstance(o.parent, (model.Function, model.Attribute)):
            out.append(('I4-class-in-leaf', f'{k!r}'))
    # I5, I6
    for k, o in allobjects.items():
        if not isinstance(o, model.Class):
            continue
        mro = list(o.mro())
        if not mro or mro[0] is not o:
            out.append(('I5-mro-head', f'mro of {k!r} starts with {mro[:1]!r}'))
        ids = [id(c) for c in mro]
        if len(set(ids)) != len(ids):
            out.append(('I5-mro-repeat,consistent=%d' % _consistent(o), f'mro of {k!r} has repeats: {mro!r}'))
        for b in o.baseobjects:
            if b is not None and ids.count(id(b)) != 1:
                out.append(('I5-base-count,consistent=%d' % _consistent(o), f'base {b!r} appears {ids.count(id(b))}x in mro of {k!r}: {mro!r}'))
        for b in o.baseobjects:
            if b is not None and sum(1 for s in b.subclasses if s is o) != sum(1 for x in o.baseobjects if x is b):
                out.append(('I6-subclass-missing', f'{k!r} has base {b!r} but {b!r}.subclasses is {b.subclasses!r}'))
        for sc in {id(x): x for x in o.subclasses}.values():
            n_sub = sum(1 for x in o.subclasses if x is sc)
            n_base = sum(1 for x in sc.baseobjects if x is o)
            if n_sub != n_base:
                out.append(('I6-subclass-repeat', f'{sc!r} appears {n_sub}x in {k!r}.subclasses but names it {n_base}x as a base'))
        for s in o.subclasses:
            if not any(b is o for b in s.baseobjects):
                out.append(('I6-subclass-extra', f'{s!r} in {k!r}.subclasses but {k!r} not among its bases {s.baseobjects!r}'))
            if allobjects.get(s.fullName()) is not s:
                out.append(('I6-subclass-unregistered', f'{s!r} in {k!r}.subclasses is not a registered object'))
    # I7 (zope)
    for k, o in allobjects.items():
        impl = getattr(o, 'implements_directly', None)
        if impl is None:
            continue
        for iname in impl:
            i = allobjects.get(iname)
            if i is not None and getattr(i, 'isinterface', False):
                if not any(x is o for x in getattr(i, 'implementedby_directly', [])):
                    out.append(('I7-implementedby-missing', f'{k!r} implements {iname!r} but is not in its implementedby_directly'))
        if getattr(o, 'isinterface', False):
            for x in getattr(o, 'implementedby_directly', []):
                if o.fullName() not in getattr(x, 'implements_directly', []):
                    out.append(('I7-implementedby-extra', f'{x!r} in implementedby_directly of {k!r} but does not list it'))
    # I8
    pages: Dict[str, str] = {}
    for k, o in allobjects.items():
        if id(o) not in reach:
            continue
        try:
            url = o.url
        except Exception as e:
            out.append(('I8-url-raises', f'{k!r}.url raised {e!r}'))
            continue
        if o.documentation_location is model.DocLocation.OWN_PAGE:
            if '#' in url:
                out.append(('I8-page-with-fragment', f'{k!r}: {url!r}'))
            if url in pages:
                out.append(('I8-page-collision', f'{k!r} and {pages[url]!r} share the page {url!r}'))
            pages[url] = k
        else:
            pu = o.parent.url if o.parent is not None else ''
            if not url.startswith(pu + '#'):
                out.append(('I8-member-url', f'{k!r}: url {url!r} is not on the page {pu!r} of its parent'))
    return out


def _t(o: Any) -> str:
    for t in (model.Package, model.Module, model.Class, model.Function, model.Attribute):
        if isinstance(o, t):
            return t.__name__
    return type(o).__name__


def _consistent(cls: model.Class) -> int:
    """1 when pydoctor computed a C3 linearisation for the class, 0 when it fell back."""
    from pydoctor import mro as _m  # only to know whether the fallback was used
    try:
        model.compute_mro(cls)
        return 1
    except ValueError:
        return 0
    except Exception:
        return 0


# --------------------------------------------------------------------------
# helpers shared by C04 / C05 / C07

def by_marker(system: model.System) -> Dict[int, List[model.Documentable]]:
    out: Dict[int, List[model.Documentable]] = {}
    for o in system.allobjects.values():
        m = marker_of(o)
        if m is not None and not isinstance(o, model.Module):
            out.setdefault(m, []).append(o)
    return out


def mod_by_mid(system: model.System) -> Dict[int, model.Documentable]:
    out = {}
    for o in system.allobjects.values():
        if isinstance(o, model.Module):
            m = marker_of(o)
            if m is not None:
                out[m] = o
    return out


def binding_matches(world: Dict[str, Any], obj: Optional[model.Documentable], b: List[Any]) -> Optional[bool]:
    """None = unresolved, True = right object, False = a different object."""
    if obj is None:
        return None
    if b[0] == 'd':
        if isinstance(obj, model.Module):
            return False
        m = marker_of(obj)
        if m is None:
            # an undocumented member carries no marker: identify it through its parent's marker and its name
            m = marker_of_member(obj, world['truth']['defs'])
        return m == b[1]
    mid = world['modules'][b[1]]['mid']
    return isinstance(obj, model.Module) and marker_of(obj) == mid


GUARANTEED_ROUTES = ('local', 'from', 'from-as', 'import-attr', 'import-as-attr', 'frompkg-attr', 'classscope-import-as-attr')


def check_bindings(world: Dict[str, Any], system: model.System, require: bool = True) -> List[Viol]:
    """C04: whenever a name resolves it resolves to what Python binds; names imported
    directly from the defining module, or reached through a module alias, always resolve."""
    out: List[Viol] = []
    truth = world['truth']
    defs = truth['defs']
    routes = truth['routes']
    origin = truth['origin']
    plain = {}
    for modname, m in world['modules'].items():
        for scope, st in W.iter_stmts(m['body']):
            if st['k'] == 'import' and not st.get('as') and not scope:
                plain.setdefault(modname, []).append(st['mod'])
    for modname, ns in truth['ns'].items():
        scope_obj = system.allobjects.get(modname)
        if not isinstance(scope_obj, model.Module):
            out.append(('module-missing', f'module {modname} not registered'))
            continue
        for name, b in ns.items():
            route = routes.get(f'{modname}:{name}', 'local')
            got = scope_obj.resolveName(name)
            ok = binding_matches(world, got, b)
            must = False
            if b[0] == 'd':
                d = defs[str(b[1])]
                if route == 'local':
                    must = True
                elif route in ('from', 'from-as', 'star'):
                    # (a star import straight from the defining module binds the name just as directly)
                    org = origin.get(f'{modname}:{name}')
                    must = bool(org) and org[0] == d['module'] and d['outer'] is None and org[1] == d['name']
            else:
                must = route in ('import', 'import-as', 'frompkg')
            if ok is False:
                out.append((f'wrong-object,route={route}', f'in {modname}, {name!r} resolves to {got!r}, Python binds {b}'))
            elif ok is None and must and require:
                out.append((f'unresolved,route={route},moved={int(bool(b[0] == "d" and truth["reexporters"].get(str(_top(world, b[1])))))}',
                            f'in {modname}, {name!r} (bound by Python to {b}) does not resolve; expandName -> {scope_obj.expandName(name)!r}'))
            # dotted access through a module binding
            if b[0] == 'm' and b[1] in truth['ns']:
                starts = [(name, b[1])]
                if route == 'import':
                    starts = [(t, t) for t in plain.get(modname, []) if t.split('.')[0] == name]
                for sexpr, smod in starts:
                    for n2, b2 in truth['ns'][smod].items():
                        expr = f'{sexpr}.{n2}'
                        got2 = scope_obj.resolveName(expr)
                        ok2 = binding_matches(world, got2, b2)
                        must2 = (route in ('import', 'import-as', 'frompkg')
                                 and b2[0] == 'd' and defs[str(b2[1])]['module'] == smod
                                 and defs[str(b2[1])]['outer'] is None
                                 and routes.get(f'{smod}:{n2}', 'local') == 'local')
                        if ok2 is False:
                            out.append((f'wrong-object,route={route}-attr', f'in {modname}, {expr!r} resolves to {got2!r}, Python binds {b2}'))
                        elif ok2 is None and must2 and require:
                            out.append((f'unresolved,route={route}-attr,moved={int(bool(truth["reexporters"].get(str(b2[1]))))}',
                                        f'in {modname}, {expr!r} (bound by Python to {b2}) does not resolve; expandName -> {scope_obj.expandName(expr)!r}'))
    # class scopes: own members, class-level imports, fall back to module scope
    bym = by_marker(system)
    for cid_s, cns in truth['cns'].items():
        objs = bym.get(int(cid_s), [])
        if len(objs) != 1 or not isinstance(objs[0], model.Class):
            continue
        cls = objs[0]
        for name, b in cns.items():
            got = cls.resolveName(name)
            ok = binding_matches(world, got, b)
            if ok is False:
                out.append(('wrong-object,route=classscope', f'in class M{cid_s}, {name!r} resolves to {got!r}, Python binds {b}'))
            elif ok is None and b[0] == 'd' and defs[str(b[1])]['outer'] == int(cid_s) and require:
                out.append(('unresolved,route=classscope-member', f'in class M{cid_s}, own member {name!r} does not resolve'))
            elif ok is None and b[0] == 'd' and require:
                # imported inside the class body directly from the module that defines the object
                org = truth.get('cns_origin', {}).get(cid_s, {}).get(name)
                d = defs[str(b[1])]
                if org and org[0] == d['module'] and org[1] == d['name'] and d['outer'] is None and \
                        routes.get(f'{org[0]}:{org[1]}', 'local') == 'local':
                    out.append((f'unresolved,route=classscope-import,moved={int(bool(truth["reexporters"].get(str(b[1]))))}',
                                f'in class M{cid_s} ({cls.fullName()}), {name!r} imported in the class body from its defining module {org[0]} does not resolve; expandName -> {cls.expandName(name)!r}'))
    # resolved bases recorded on classes
    for modname, m in world['modules'].items():
        for scope, st in W.iter_stmts(m['body']):
            if st['k'] != 'class':
                continue
            objs = bym.get(st['id'], [])
            if len(objs) != 1 or not isinstance(objs[0], model.Class):
                continue
            cls = objs[0]
            if len(cls.baseobjects) != len(st['bases']):
                continue
            for ref, bo in zip(st['bases'], cls.baseobjects):
                if bo is not None and ref.get('id') is not None and marker_of(bo) != ref['id']:
                    out.append((f'wrong-base,route={ref.get("route")},self_moved={int(bool(truth["reexporters"].get(str(_top(world, st["id"])))))}',
                                f'base {ref["expr"]!r} of M{st["id"]} resolved to {bo!r}, Python: M{ref["id"]}'))
                elif bo is None and require and ref.get('route') in GUARANTEED_ROUTES and _direct(world, modname, ref):
                    out.append((f'unresolved-base,route={ref.get("route")},moved={int(bool(truth["reexporters"].get(str(_top(world, ref["id"])))))},self_moved={int(bool(truth["reexporters"].get(str(_top(world, st["id"])))))}',
                                f'base {ref["expr"]!r} of M{st["id"]} (Python: M{ref["id"]}) is unresolved'))
    return out


def _top(world: Dict[str, Any], i: int) -> int:
    defs = world['truth']['defs']
    while defs[str(i)].get('outer') is not None:
        i = defs[str(i)]['outer']
    return i


def _direct(world: Dict[str, Any], modname: str, ref: Dict[str, Any]) -> bool:
    """Does ``ref`` reach its class directly: local name, name imported from the
    defining module, or attribute of a module alias whose module defines it?"""
    truth = world['truth']
    d = truth['defs'][str(ref['id'])]
    if d['outer'] is not None:
        return False
    route = ref.get('route')
    expr = ref['expr']
    if route in ('local', 'classscope'):
        return '.' not in expr
    if route in ('from', 'from-as', 'star'):
        org = truth['origin'].get(f'{modname}:{expr}')
        return bool(org) and org[0] == d['module'] and org[1] == d['name']
    if route == 'classscope-import-as-attr':
        via = ref.get('via')
        head, _, last = expr.rpartition('.')
        return via == d['module'] and last == d['name'] and '.' not in head and \
            truth['routes'].get(f'{via}:{d["name"]}', 'local') == 'local'
    if route in ('import-attr', 'import-as-attr', 'frompkg-attr'):
        via = ref.get('via')
        if not (via == d['module'] and truth['routes'].get(f'{via}:{d["name"]}', 'local') == 'local'):
            return False
        head, _, last = expr.rpartition('.')
        if last != d['name']:
            return False
        if route == 'import-attr':
            return head == via          # import a.b ; a.b.X
        # <alias>.X where the alias is bound directly to the defining module
        return '.' not in head and truth['ns'][modname].get(head) == ['m', via]
    return False


# --------------------------------------------------------------------------
# C05

def check_mro(world: Dict[str, Any], system: Any) -> List[Viol]:
    out: List[Viol] = []
    truth = world['truth']
    defs = truth['defs']
    bym = by_marker(system)
    memo: Dict[int, Any] = {}
    mro_msgs = [m for (sec, m, th) in system.sim_msgs if sec == 'mro']
    for modname, m in world['modules'].items():
        for scope, st in W.iter_stmts(m['body']):
            if st['k'] != 'class':
                continue
            cid = st['id']
            objs = bym.get(cid, [])
            if len(objs) != 1 or not isinstance(objs[0], model.Class):
                out.append(('class-missing', f'class M{cid} is registered {len(objs)} times'))
                continue
            cls = objs[0]
            if not _judgeable(world, cid):
                continue
            want = ref_mro(world, cid, memo)
            got = [marker_of(c) for c in cls.mro()]
            if want is None:
                own_inconsistent = _own_inconsistent(world, cid, memo)
                if own_inconsistent:
                    named = [mm for mm in mro_msgs if 'Cannot compute linear' in mm or 'consistent' in mm.lower() or 'MRO' in mm]
                    if not any(cls.fullName() in mm or f':{cls.linenumber}:' in mm for mm in mro_msgs):
                        out.append(('inconsistent-not-reported', f'Python rejects the hierarchy of M{cid} ({cls.fullName()}) but no mro message names it; mro messages: {mro_msgs[:3]}'))
                continue
            if got != want:
                out.append((f'mro-differs,len={len(want)}', f'mro of M{cid}: pydoctor {got} python {want}'))
                continue
            # members: attribute lookup along the order
            names: Set[str] = set()
            for c in want:
                names.update(defs[str(c)].get('members', {}))
            # the class page attributes every (inherited) member to one class: the first definer along the order
            try:
                from pydoctor.templatewriter import util as _twutil
                shown: Dict[str, List[Optional[int]]] = {}
                for baselist, attrs in _twutil.class_members(cls):
                    for a in attrs:
                        shown.setdefault(a.name, []).append(marker_of(baselist[0]))
                hidden = set(world.get('hidden_members', ()))
                for name in sorted(names):
                    definer = next(c for c in want if name in defs[str(c)]['members'])
                    if defs[str(definer)]['members'][name] in hidden or definer in hidden:
                        # attribute lookup reaches a member that a privacy rule hides: it is not listed, and above all not
                        # listed under a class further up
                        if shown.get(name):
                            out.append(('hidden-override-does-not-mask', f'on the page of M{cid}, member {name!r} is listed under {shown.get(name)}, attribute lookup finds the hidden M{defs[str(definer)]["members"][name]} in M{definer}'))
                            break
                        continue
                    if shown.get(name) != [definer]:
                        out.append(('member-listed-under-wrong-class', f'on the page of M{cid}, member {name!r} is listed under {shown.get(name)}, attribute lookup finds it in M{definer}'))
                        break
            except ImportError:
                pass
            # override notes ("overrides X.m") name the class attribute lookup would reach next, and
            # "overridden in" lists exactly the nearest redefinitions below
            try:
                from pydoctor.templatewriter import pages as _pages
                from pydoctor.stanutils import flatten as _flatten
                for name in sorted(defs[str(cid)]['members']):
                    nxt = next((c for c in want[1:] if name in defs[str(c)]['members']), None)
                    html_ = ''.join(_flatten(x) for x in _pages.get_override_info(cls, name))
                    m = re.search(r'overrides <code><a[^>]*title="([^"]+)"', html_) or \
                        re.search(r'overrides <code><a[^>]*>([^<]+)</a>', html_)
                    got_over = m.group(1) if m else None
                    want_over = None
                    if nxt is not None:
                        tobj = bym.get(defs[str(nxt)]['members'][name], [])
                        nobj = bym.get(nxt, [])
                        if len(nobj) == 1:
                            want_over = f'{nobj[0].fullName()}.{name}'
                    if (got_over or None) != want_over and not (got_over and want_over and got_over.endswith(want_over.split('.', 1)[-1]) and False):
                        out.append(('override-note-wrong-class', f'M{cid}.{name}: page says it overrides {got_over!r}, attribute lookup along the MRO reaches {want_over!r} next'))
                        break
            except ImportError:
                pass
            for name in sorted(names):
                definer = next(c for c in want if name in defs[str(c)]['members'])
                exp_id = defs[str(definer)]['members'][name]
                found = cls.find(name)
                if found is None or marker_of_member(found, defs) != exp_id:
                    out.append(('find-wrong-definer', f'M{cid}.find({name!r}) -> {found!r}, Python: M{exp_id} defined in M{definer}'))
                # docstring inheritance for the class's own undocumented members
                own = defs[str(cid)]['members'].get(name)
                if own is not None and defs[str(own)].get('nodoc') and not defs[str(own)].get('emptydoc'):
                    member = cls.contents.get(name)
                    if member is None:
                        continue
                    doc, src = model.get_docstring(member)
                    exp_src = None
                    for c in want:
                        mid = defs[str(c)]['members'].get(name)
                        if mid is None:
                            continue
                        if defs[str(mid)].get('emptydoc'):
                            break         # __doc__ == '' is found first: no documentation is inherited from further up
                        if not defs[str(mid)].get('nodoc'):
                            exp_src = mid
                            break
                    got_src = None
                    if doc:
                        mm = W.MARK_RE.search(doc)
                        got_src = int(mm.group(1)) if mm else None
                    if got_src != exp_src:
                        out.append(('inherited-docstring-wrong-source', f'undocumented M{cid}.{name}: pydoctor takes the docstring of M{got_src}, Python attribute lookup yields M{exp_src}'))
    return out


def marker_of_member(o: model.Documentable, defs: Dict[str, Any]) -> Optional[int]:
    m = marker_of(o)
    if m is not None:
        return m
    # undocumented member: identify through parent marker + name
    par = o.parent
    pm = marker_of(par) if par is not None else None
    if pm is None:
        return None
    return defs[str(pm)]['members'].get(o.name)


def _judgeable(world: Dict[str, Any], cid: int) -> bool:
    """All bases, transitively, are reached by routes C04 guarantees to resolve."""
    truth = world['truth']
    idx = _class_index(world)
    seen: Set[int] = set()
    stack = [cid]
    while stack:
        c = stack.pop()
        if c in seen:
            continue
        seen.add(c)
        modname, st = idx[c]
        for ref in st['bases']:
            if ref.get('id') is None:
                return False
            if not (ref.get('route') in GUARANTEED_ROUTES + ('classscope',) and
                    (_direct(world, modname, ref) or ref.get('route') in ('local', 'classscope'))):  # noqa
                return False
            stack.append(ref['id'])
    return True


_IDX_CACHE: Dict[int, Any] = {}


def _class_index(world: Dict[str, Any]) -> Dict[int, Tuple[str, Dict[str, Any]]]:
    key = id(world)
    if key in _IDX_CACHE and _IDX_CACHE[key][0] is world:
        return _IDX_CACHE[key][1]
    idx = {}
    for modname, m in world['modules'].items():
        for scope, st in W.iter_stmts(m['body']):
            if st['k'] == 'class':
                idx[st['id']] = (modname, st)
    _IDX_CACHE.clear()
    _IDX_CACHE[key] = (world, idx)
    return idx


def _own_inconsistent(world: Dict[str, Any], cid: int, memo: Dict[int, Any]) -> bool:
    """The class itself is where Python raises (all its bases linearise fine)."""
    defs = world['truth']['defs']
    return ref_mro(world, cid, memo) is None and all(
        ref_mro(world, b, memo) is not None for b in defs[str(cid)]['bases'] if b is not None)


# --------------------------------------------------------------------------
# C07

def member_path(world: Dict[str, Any], i: int) -> Tuple[int, List[str]]:
    """(top-level id, names below it)"""
    defs = world['truth']['defs']
    path: List[str] = []
    while defs[str(i)].get('outer') is not None:
        path.append(defs[str(i)]['name'])
        i = defs[str(i)]['outer']
    return i, list(reversed(path))


def expected_fullname(world: Dict[str, Any], i: int) -> Optional[str]:
    top, path = member_path(world, i)
    loc = world['truth']['loc'].get(str(top))
    if loc is None:
        return None
    return '.'.join([loc[0], loc[1]] + path)


def check_reexports(world: Dict[str, Any], system: Any) -> List[Viol]:
    """C07 clause 1: documented exactly once, under the re-exporting module and the
    exported name, no longer under the defining module."""
    out: List[Viol] = []
    truth = world['truth']
    defs = truth['defs']
    bym = by_marker(system)
    for i_s, d in defs.items():
        i = int(i_s)
        if d['kind'] == 'field':
            continue
        top = _top(world, i)
        moved = bool(truth['reexporters'].get(str(top)))
        objs = bym.get(i, [])
        tag = f'moved={int(moved)},kind={d["kind"]}'
        if len(objs) == 0:
            if not d.get('nodoc'):
                out.append((f'lost,{tag}', f'M{i} ({d["kind"]} {d["name"]} of {d["module"]}) is not documented anywhere'))
            continue
        if len(objs) > 1:
            out.append((f'documented-twice,{tag}', f'M{i} documented as {[o.fullName() for o in objs]}'))
            continue
        want = expected_fullname(world, i)
        got = objs[0].fullName()
        if top in truth.get('loc_unsure', ()):
            continue      # cyclic world: a back edge made the name travel through earlier star imports (see world.py)
        if moved and not truth.get('reexport_direct', {}).get(str(top), True):
            # re-exported through a chain of imports or an alias: outside the quantifier of C07
            # (and pydoctor does not promise to follow chains); either location is accepted
            if got not in (want, '.'.join([defs[str(top)]['module'], defs[str(top)]['name']] + member_path(world, i)[1])):
                out.append((f'wrong-location,indirect,{tag}', f'M{i} documented at {got!r}'))
            continue
        if want is not None and got != want:
            out.append((f'wrong-location,{tag}', f'M{i} documented at {got!r}, expected {want!r} (re-exporters {truth["reexporters"].get(str(top))})'))
        if moved and d['outer'] is None and want is not None and got == want:
            # "documented under the re-exporting module": it must be that module's entry for the exported name
            rmod = system.allobjects.get(truth['loc'][str(top)][0])
            if rmod is not None and rmod.contents.get(truth['loc'][str(top)][1]) is not objs[0]:
                out.append((f'not-in-reexporter-contents,{tag}', f'M{i} is registered as {got!r} but is not contents[{truth["loc"][str(top)][1]!r}] of {rmod!r}: it would be listed on no page'))
        if moved and d['outer'] is None:
            old = f'{d["module"]}.{d["name"]}'
            if want != old and old in system.allobjects:
                out.append((f'still-at-old-location,{tag}', f'{old!r} is still registered after the move of M{i} to {want!r}'))
    return out


def check_references(world: Dict[str, Any], system: Any) -> List[Viol]:
    """C07 clause 2: every reference that names either location leads to the object."""
    out: List[Viol] = []
    truth = world['truth']
    defs = truth['defs']
    bym = by_marker(system)
    routes = truth['routes']
    origin = truth['origin']
    for modname, ns in truth['ns'].items():
        scope_obj = system.allobjects.get(modname)
        if not isinstance(scope_obj, model.Module):
            continue
        for name, b in ns.items():
            if b[0] != 'd':
                continue
            i = b[1]
            d = defs[str(i)]
            if d['outer'] is not None or not truth['reexporters'].get(str(i)):
                continue
            if i in truth.get('loc_unsure', ()):
                continue
            if not truth.get('reexport_direct', {}).get(str(i), True):
                continue
            route = routes.get(f'{modname}:{name}', 'local')
            org = origin.get(f'{modname}:{name}')
            rex = truth['reexporters'][str(i)]
            if route in ('from', 'from-as') and org:
                if org[0] == d['module'] and org[1] == d['name']:
                    via = 'defining'
                elif org[0] in rex and [org[0], org[1]] == truth['loc'][str(i)]:
                    via = 'reexporter'
                else:
                    continue
            elif route == 'local':
                via = 'local'
            else:
                continue
            # import alias
            got = scope_obj.resolveName(name)
            if got is None or marker_of(got) != i:
                out.append((f'ref=import,route={via}', f'in {modname}, {name!r} (imported from the {via} module) resolves to {got!r}, expected M{i} at {expected_fullname(world, i)!r}'))
            # qualified names, old and new, through the registry-level lookup pydoctor offers for outdated names
            for how, q in (('old-qualified', f'{d["module"]}.{d["name"]}'), ('new-qualified', expected_fullname(world, i))):
                try:
                    o = system.find_object(q)
                except LookupError:
                    o = None
                if o is None or marker_of(o) != i:
                    out.append((f'ref=find_object,{how}', f'find_object({q!r}) -> {o!r}, expected M{i}'))
            # "the object and all its members": members named through either location
            if d['kind'] == 'class':
                for mname, mid in sorted(d.get('members', {}).items()):
                    if defs[str(mid)].get('nodoc') or defs[str(mid)]['kind'] in ('ivar',):
                        continue
                    for how, q in (('old-qualified-member', f'{d["module"]}.{d["name"]}.{mname}'),
                                   ('new-qualified-member', f'{expected_fullname(world, i)}.{mname}')):
                        try:
                            o = system.find_object(q)
                        except LookupError:
                            o = None
                        if o is None or marker_of(o) != mid:
                            out.append((f'ref=find_object,{how}', f'find_object({q!r}) -> {o!r}, expected member M{mid}'))
                            break
                    got2 = scope_obj.resolveName(f'{name}.{mname}')
                    if got2 is None or marker_of(got2) != mid:
                        out.append((f'ref=member-via-import,route={via}', f'in {modname}, {name}.{mname!s} resolves to {got2!r}, expected member M{mid}'))
                    break
    out.extend(_check_links(world, system, bym))
    # base classes
    for modname, m in world['modules'].items():
        for scope, st in W.iter_stmts(m['body']):
            if st['k'] != 'class':
                continue
            objs = bym.get(st['id'], [])
            if len(objs) != 1 or not isinstance(objs[0], model.Class):
                continue
            cls = objs[0]
            if len(cls.baseobjects) != len(st['bases']):
                continue
            for ref, bo in zip(st['bases'], cls.baseobjects):
                i = ref.get('id')
                if i is None or defs[str(i)]['outer'] is not None or not truth['reexporters'].get(str(i)):
                    continue
                if i in truth.get('loc_unsure', ()):
                    continue
                if not truth.get('reexport_direct', {}).get(str(i), True):
                    continue
                if ref.get('route') not in ('from', 'from-as', 'local'):
                    continue
                org = origin.get(f'{modname}:{ref["expr"]}')
                d = defs[str(i)]
                if ref['route'] == 'local':
                    via = 'local'
                elif org and org[0] == d['module'] and org[1] == d['name']:
                    via = 'defining'
                elif org and [org[0], org[1]] == truth['loc'][str(i)]:
                    via = 'reexporter'
                else:
                    continue
                if bo is None or marker_of(bo) != i:
                    out.append((f'ref=base,route={via},self_moved={int(bool(truth["reexporters"].get(str(_top(world, st["id"])))))}',
                                f'base {ref["expr"]!r} of M{st["id"]} in {modname} (imported from the {via} module) is {bo!r}, expected M{i}'))
    return out


def _href(tag: Any) -> Optional[str]:
    """First href found in a stan tree."""
    from twisted.web.template import Tag
    stack = [tag]
    while stack:
        t = stack.pop(0)
        if isinstance(t, Tag):
            if t.tagName == 'a' and 'href' in t.attributes:
                return str(t.attributes['href'])
            stack = list(t.children) + stack
        elif isinstance(t, (list, tuple)):
            stack = list(t) + stack
    return None


def _check_links(world: Dict[str, Any], system: Any, bym: Dict[int, List[Any]]) -> List[Viol]:
    """C07 clause 2, link level: docstring cross-references (by the local name, the old and the new qualified
    name) and annotations that name a re-exported object produce a hyperlink to its one page/anchor.  Uses the
    real linkers (Documentable.docstring_linker.link_xref, linker._AnnotationLinker.link_to)."""
    from pydoctor import linker as _linker
    import contextlib
    import io
    out: List[Viol] = []
    truth = world['truth']
    defs = truth['defs']
    routes = truth['routes']
    origin = truth['origin']
    seen_sigs: Set[str] = set()
    for modname, ns in truth['ns'].items():
        scope_obj = system.allobjects.get(modname)
        if not isinstance(scope_obj, model.Module):
            continue
        funcs = [o for o in scope_obj.contents.values() if isinstance(o, model.Function)]
        for name, b in ns.items():
            if b[0] != 'd':
                continue
            i = b[1]
            d = defs[str(i)]
            if d['outer'] is not None or not truth['reexporters'].get(str(i)) or d['kind'] not in ('class', 'func'):
                continue
            if i in truth.get('loc_unsure', ()):
                continue
            if not truth.get('reexport_direct', {}).get(str(i), True):
                continue
            objs = bym.get(i, [])
            if len(objs) != 1:
                continue
            target = objs[0]
            route = routes.get(f'{modname}:{name}', 'local')
            org = origin.get(f'{modname}:{name}')
            if route in ('from', 'from-as') and org:
                if org[0] == d['module'] and org[1] == d['name']:
                    via = 'defining'
                elif [org[0], org[1]] == truth['loc'][str(i)]:
                    via = 'reexporter'
                else:
                    continue
            elif route == 'local':
                via = 'local'
            else:
                continue
            want = target.url
            cands = [(f'xref-local,route={via}', name),
                     ('xref-old-qualified', f'{d["module"]}.{d["name"]}'),
                     ('xref-new-qualified', expected_fullname(world, i))]
            buf = io.StringIO()
            with contextlib.redirect_stdout(buf):
                for how, ident_ in cands:
                    sig = f'ref={how}'
                    if sig in seen_sigs:
                        continue
                    if 'qualified' in how and ident_.split('.')[0] in ns:
                        # the first component is bound locally in this module: the text is then not a
                        # qualified name but an attribute path through that binding
                        continue
                    try:
                        with scope_obj.docstring_linker.switch_context(None):
                            tag = scope_obj.docstring_linker.link_xref(ident_, ident_, 0)
                        href = _href(tag)
                    except Exception as e:   # the linker itself must not raise
                        href = f'!{type(e).__name__}'
                    if href != want:
                        seen_sigs.add(sig)
                        out.append((sig, f'in {modname}, cross-reference {ident_!r} links to {href!r}, expected {want!r} (M{i})'))
                if funcs:
                    sig = f'ref=annotation,route={via}'
                    if sig not in seen_sigs:
                        try:
                            al = _linker._AnnotationLinker(funcs[0])
                            tag = al.link_to(name, name)
                            href = _href(tag)
                        except Exception as e:
                            href = f'!{type(e).__name__}'
                        page = funcs[0].page_object.url
                        ok = href == want or (href is not None and want.startswith(page + '#') and href == want[len(page):])
                        if not ok:
                            seen_sigs.add(sig)
                            out.append((sig, f'annotation {name!r} on {funcs[0].fullName()} links to {href!r}, expected {want!r} (M{i})'))
    return out


def check_class_attr_paths(world: Dict[str, Any], system: Any) -> List[Viol]:
    """C04, dotted names through a class: ``K.n`` denotes what attribute lookup along K's MRO finds - the binding of
    ``n`` in the first class of the linearisation whose body binds it (definition, import or alias in the class
    body).  Whenever pydoctor resolves ``K.n`` from the module that defines K it must be that object; own and
    inherited *members* must resolve."""
    out: List[Viol] = []
    truth = world['truth']
    defs = truth['defs']
    bym = by_marker(system)
    memo: Dict[int, Any] = {}
    idx = _class_index(world)
    for cid, (modname, st) in idx.items():
        if defs[str(cid)].get('outer') is not None:
            continue
        if not _judgeable(world, cid):
            continue
        lin = ref_mro(world, cid, memo)
        if lin is None:
            continue
        objs = bym.get(cid, [])
        if len(objs) != 1:
            continue
        names: Dict[str, List[Any]] = {}
        for c in lin:
            for n, b in truth['cns'].get(str(c), {}).items():
                names.setdefault(n, b)
        # every module-level name that Python binds to this class, in the defining module and in the modules that import
        # it: once pydoctor resolves the name to the class, ``name.member`` has to follow (also when the class has since
        # been moved by a re-export)
        for scope_name, ns in sorted(truth['ns'].items()):
            scope_obj = system.allobjects.get(scope_name)
            if not isinstance(scope_obj, model.Module):
                continue
            for kname, kb in sorted(ns.items()):
                if kb[0] != 'd' or kb[1] != cid:
                    continue
                if scope_obj.resolveName(kname) is not objs[0]:
                    continue
                via = 'class-attribute' if scope_name == modname else 'imported-class-attribute'
                for n, b in sorted(names.items()):
                    got = scope_obj.resolveName(f'{kname}.{n}')
                    ok = binding_matches(world, got, b)
                    if ok is False:
                        inherited = int(n not in truth['cns'].get(str(cid), {}))
                        out.append((f'wrong-object,route={via},inherited={inherited},kind={b[0]}',
                                    f'in {scope_name}, {kname}.{n} resolves to {got!r}; attribute lookup along the MRO {lin} binds {b}'))
                    elif ok is None and b[0] == 'd' and defs[str(b[1])].get('outer') in lin and not defs[str(b[1])].get('nodoc') \
                            and defs[str(b[1])]['kind'] not in ('ivar', 'field'):
                        out.append((f'unresolved,route={via},inherited={int(defs[str(b[1])]["outer"] != cid)}',
                                    f'in {scope_name}, member {kname}.{n} (M{b[1]}) does not resolve'))
    return out
