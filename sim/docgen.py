"""Docstring bodies with real markup in every supported docformat (workload for C08).

``decorate(world, rng, docformat)`` fills the ``docextra`` of every definition (the
text after the identity marker) and gives documented functions a parameter ``a``.
A fraction of docstrings carries a *planted* problem: a fatal epytext error or a
reST error docutils recovers from; the plant is recorded in
``world['truth']['planted'][id] = kind``.
"""
from __future__ import annotations

from typing import Any, Dict, List, Optional

from . import world as W
from .prng import Rng

WORDS = ['alpha', 'beta', 'gamma', 'delta', 'omega', 'value', 'result', 'buffer', 'handler', 'widget']


def _epytext_symbols() -> List[str]:
    try:
        from pydoctor.epydoc.markup import epytext
        return list(epytext.SYMBOLS)
    except Exception:
        return []


def _sentence(rng: Rng, n: int = 5) -> str:
    return ' '.join(rng.choice(WORDS) for _ in range(n)).capitalize() + '.'


def body(rng: Rng, fmt: str, kind: str, xref: Optional[str], plant: Optional[str]) -> str:
    s1, s2, s3 = _sentence(rng), _sentence(rng, 7), _sentence(rng, 4)
    is_func = kind in ('func', 'method', 'classmethod', 'staticmethod')
    if fmt == 'epytext':
        t = f' Summary with I{{italic}} and C{{code}}' + (f' and L{{{xref}}}' if xref else '') + f'. {s1}\n\n{s2}\n\n  - item {s3}\n  - second item\n\n'
        if rng.chance(0.3):
            # section headings; the same (long) heading may legitimately occur twice
            pool = ['Usage', 'Notes about thread safety and reentrancy guarantees of this API', 'Implementation details',
                    '1.0', '2.0', '2024', '--', 'Вступление', 'Заметки']
            h = rng.choice(pool)
            t += f'{h}\n' + '=' * len(h) + f'\n\n{s3}\n\n'
            if rng.chance(0.5):
                # a second section: the same heading again, or another one (change-log style numeric headings, headings
                # in another script: their anchors are derived from the text)
                h2 = h if rng.chance(0.5) else rng.choice(pool)
                t += f'{h2}\n' + '=' * len(h2) + f'\n\nAgain: {s1}\n\n'
        if rng.chance(0.4):
            # symbol and escape markup, drawn from the table of the epytext module under test
            syms = _epytext_symbols()
            if syms:
                t += 'Symbols: ' + ' '.join(f'S{{{rng.choice(syms)}}}' for _ in range(rng.randint(1, 3))) + ' and E{lb}braceE{rb}.\n\n'
        if is_func:
            t += '@param a: the a argument\n@type a: C{int}\n@return: something useful\n@rtype: C{str}\n'
        elif kind == 'class':
            t += f'@note: a note about the class.\n@see: U{{http://example.invalid/}}\n'
        else:
            t += '@note: a note.\n'
        if plant == 'fatal-epytext':
            t += '\nBroken B{markup here\n'
        return t
    if fmt == 'restructuredtext':
        t = f' Summary with *emphasis* and ``code``' + (f' and `{xref}`' if xref else '') + f'. {s1}\n\n{s2}\n\n- item {s3}\n- second item\n\n'
        if rng.chance(0.3):
            h = rng.choice(['Usage', 'Notes about thread safety and reentrancy guarantees of this API', 'Implementation details'])
            t += f'{h}\n' + '-' * len(h) + f'\n\n{s3}\n\n'
        if is_func:
            t += ':param a: the a argument\n:type a: int\n:returns: something useful\n:rtype: str\n'
        else:
            t += '.. note:: a note.\n'
        if plant == 'rst-recoverable':
            t += '\nUnbalanced *emphasis here and `backquote\n\nTitle\n==\n'
        return t
    if fmt == 'google':
        t = f' Summary line. {s1}\n\n{s2}\n\n'
        if is_func:
            t += 'Args:\n    a (int): the a argument\n\nReturns:\n    str: something useful\n\n'
        t += 'Note:\n    a note.\n'
        if plant == 'rst-recoverable':
            t += '\nUnbalanced *emphasis here\n'
        return t
    if fmt == 'numpy':
        t = f' Summary line. {s1}\n\n{s2}\n\n'
        if is_func:
            t += 'Parameters\n----------\na : int\n    the a argument\n\nReturns\n-------\nstr\n    something useful\n\n'
        t += 'Notes\n-----\na note.\n'
        if plant == 'rst-recoverable':
            t += '\nUnbalanced *emphasis here\n'
        return t
    return f' Plain words {s1}\n\n{s2}\n  indented <b>not markup</b> & more\n'


def decorate(world: Dict[str, Any], rng: Rng, fmt: str, plant_rate: float = 0.0) -> None:
    planted: Dict[str, str] = {}
    names = [d['name'] for d in world['truth']['defs'].values() if d['kind'] == 'class']
    for modname, m in world['modules'].items():
        for scope, st in W.iter_stmts(m['body']):
            if st['k'] not in ('class', 'func', 'var') or st.get('nodoc'):
                continue
            r = rng.sub(st['id'])
            kind = world['truth']['defs'][str(st['id'])]['kind']
            plant = None
            if r.chance(plant_rate):
                plant = 'fatal-epytext' if fmt == 'epytext' else ('rst-recoverable' if fmt in ('restructuredtext', 'google', 'numpy') else None)
            xref = r.choice(names) if names and r.chance(0.5) else None
            extra = body(r, fmt, kind, xref, plant)
            if st.get('fields'):
                # field-documented attributes are epytext syntax; keep them only there
                if fmt != 'epytext':
                    st['fields'] = []
            st['docextra'] = extra
            if plant:
                planted[str(st['id'])] = plant
            if st['k'] == 'func' and st.get('deco') != 'property':
                st['params'] = ['a']
    world['truth']['planted'] = planted
