"""Deterministic simulation kernel for pydoctor (see /verif/DESIGN.md)."""
