"""Check driver: budgets, fork pool, known findings, replay files, evidence, exit codes.

A check module provides

    PROPERTY: str                  'C06'
    LEVEL: str                     evidence level
    def plan(tier, seed) -> dict   {'tasks': iterable of task dicts, 'budget_s': float, 'task_timeout': float}
    def run_task(task) -> dict     (runs in a forked child) {'violations': [V], 'stats': {...}, 'digest': str, 'sample': obj}
    def replay(payload) -> dict    (runs in a forked child) same result shape as run_task
    def minimise(violation, runner) -> violation          (optional)
    def coverage(acc) -> dict      builds the evidence 'coverage' object from accumulated stats
    ASSUMPTIONS: [str]

    V = {'signature': str, 'detail': str, 'payload': {...replay payload...}}

Exit status: 0 held (KNOWN-FINDING lines allowed) / 1 VIOLATION / 2 harness error.
"""
from __future__ import annotations

import hashlib
import importlib
import json
import os
import sys
import time
from typing import Any, Callable, Dict, List, Optional, Tuple

from . import runner
from .prng import derive

VERIF = os.path.dirname(os.path.dirname(os.path.abspath(__file__)))
KNOWN_PATH = os.path.join(VERIF, 'known_findings.json')
REPLAY_DIR = os.path.join(VERIF, 'replays')
EVIDENCE_DIR = os.path.join(VERIF, 'evidence')


class HarnessError(Exception):
    pass


class Known:
    """Known findings of one property.  A signature may contain ``*`` (any run of
    characters except ``,`` and ``/``) so that one root cause whose footprint varies in an
    irrelevant tag is one entry; ``**`` matches anything."""

    def __init__(self, entries: List[Dict[str, Any]]) -> None:
        import re
        self.entries = entries
        def rx(pat: str) -> Any:
            out = []
            for part in re.split(r'(\*\*|\*)', pat):
                out.append('.*' if part == '**' else '[^,/]*' if part == '*' else re.escape(part))
            return re.compile('^' + ''.join(out) + '$')
        self._rx = [(rx(e['signature']), e) for e in entries]

    def match(self, sig: str) -> Optional[Dict[str, Any]]:
        for rx, e in self._rx:
            if rx.match(sig):
                return e
        return None

    def __contains__(self, sig: str) -> bool:
        return self.match(sig) is not None

    def __getitem__(self, sig: str) -> Dict[str, Any]:
        e = self.match(sig)
        if e is None:
            raise KeyError(sig)
        return e


def load_known(prop: str) -> Known:
    try:
        with open(KNOWN_PATH) as f:
            data = json.load(f)
    except FileNotFoundError:
        return Known([])
    return Known([e for e in data.get('findings', [])
                  if e.get('property') == prop and e.get('status') == 'known'])


def sig_hash(sig: str) -> str:
    return hashlib.blake2b(sig.encode(), digest_size=5).hexdigest()


def write_replay(prop: str, seed: int, violation: Dict[str, Any]) -> str:
    os.makedirs(REPLAY_DIR, exist_ok=True)
    path = os.path.join(REPLAY_DIR, f'{prop}-{seed}-{sig_hash(violation["signature"])}.json')
    doc = {
        'format': 1,
        'property': prop,
        'seed': seed,
        'expect': {'signature': violation['signature'], 'digest': violation.get('digest')},
        'detail': violation.get('detail'),
        'minimised_from': violation.get('minimised_from'),
        'payload': violation['payload'],
    }
    # where the violation came from: the task (tier, index) regenerates the unminimised case from the seed alone; the
    # unminimised payload and its detail are kept too, because oracles that judge against recorded ground truth can
    # be misled by a minimised world whose truth was recorded for the larger one
    for k in ('task_index', 'tier', 'original_detail', 'original_payload'):
        if violation.get(k) is not None:
            doc[k] = violation[k]
    with open(path, 'w') as f:
        json.dump(doc, f, indent=1, sort_keys=True, default=str)
    return path


def _result_digest(res: Dict[str, Any]) -> str:
    return hashlib.blake2b(json.dumps(
        {'d': res.get('digest'), 'v': sorted(v['signature'] for v in res.get('violations', []))},
        sort_keys=True).encode(), digest_size=8).hexdigest()


def main(argv: Optional[List[str]] = None) -> int:
    import argparse
    ap = argparse.ArgumentParser()
    ap.add_argument('property')
    ap.add_argument('--tier', default=os.environ.get('VERIF_TIER') or 'quick', choices=['quick', 'thorough'])
    ap.add_argument('--replay')
    ap.add_argument('--jobs', type=int, default=0)
    ap.add_argument('--budget', type=float, default=float(os.environ.get('VERIF_BUDGET_S') or 0))
    ap.add_argument('--seed', type=int, default=int(os.environ.get('VERIF_SEED') or 0))
    ap.add_argument('--max-tasks', type=int, default=0)
    ap.add_argument('--no-minimise', action='store_true')
    ap.add_argument('--no-evidence', action='store_true')
    ap.add_argument('--list-signatures', action='store_true', help='print every signature seen (soak mode)')
    ap.add_argument('--dump-digests', help='write {task index: result digest} as JSON (determinism self-test)')
    ap.add_argument('--ignore-known', action='store_true', help='treat known findings as violations (to regenerate their replay files)')
    ap.add_argument('--only', help='regex: report (and minimise) only violations whose signature matches (triage aid)')
    args = ap.parse_args(argv)
    prop = args.property.upper()
    try:
        mod = importlib.import_module(f'checks.{prop.lower()}')
    except ImportError as e:
        print(f'HARNESS-ERROR: no check for {prop}: {e}')
        return 2
    try:
        if args.replay:
            return do_replay(mod, prop, args.replay)
        return do_check(mod, prop, args)
    except HarnessError as e:
        print(f'HARNESS-ERROR: {e}')
        return 2


def do_replay(mod: Any, prop: str, path: str) -> int:
    with open(path) as f:
        doc = json.load(f)
    status, res = runner.run_one(mod.replay, doc['payload'], task_timeout=900)
    if status != 'ok':
        print(f'HARNESS-ERROR: replay {status}: {str(res)[-2000:]}')
        return 2
    want = doc['expect']['signature']
    sigs = [v['signature'] for v in res.get('violations', [])]
    for v in res.get('violations', []):
        print(f'replayed: {v["signature"]}: {v.get("detail", "")[:400]}')
    if want in sigs:
        known = load_known(prop)
        if want in known:
            print(f'KNOWN-FINDING: property={prop} {known[want]["what_fails"]}')
            return 0
        print(f'VIOLATION property={prop} replay={path}')
        return 1
    print(f'replay of {path}: expected signature {want!r} not reproduced (got {sigs})')
    return 0


def do_check(mod: Any, prop: str, args: Any) -> int:
    t0 = time.monotonic()
    tier, seed = args.tier, args.seed
    plan = mod.plan(tier, seed)
    budget = args.budget or plan.get('budget_s', 60.0)
    deadline = t0 + budget
    tasks = list(plan['tasks'])
    if args.max_tasks:
        tasks = tasks[:args.max_tasks]
    task_timeout = plan.get('task_timeout', 120.0)
    known = Known([]) if args.ignore_known else load_known(prop)

    acc: Dict[str, Any] = {'results': 0}
    stats_list: List[Tuple[int, Dict[str, Any]]] = []
    violations: Dict[str, Tuple[int, Dict[str, Any]]] = {}   # signature -> (lowest task idx, violation)
    known_seen: Dict[str, int] = {}
    samples: List[Tuple[int, Any]] = []
    digests: Dict[int, str] = {}
    harness_errors: List[str] = []
    retry: List[int] = []

    def handle(idx: int, status: str, res: Any, final: bool) -> None:
        if status == 'ok':
            acc['results'] += 1
            digests[idx] = _result_digest(res)
            stats_list.append((idx, res.get('stats', {})))
            if res.get('sample') is not None and len(samples) < 64:
                samples.append((idx, res['sample']))
            for v in res.get('violations', []):
                sig = v['signature']
                if sig in known:
                    ksig = known[sig]['signature']
                    known_seen[ksig] = known_seen.get(ksig, 0) + 1
                    continue
                cur = violations.get(sig)
                if cur is None or idx < cur[0]:
                    violations[sig] = (idx, v)
        elif status in ('timeout', 'died') and not final:
            # under load a task may hit the wall-clock backstop (and a child can be lost to the OOM killer):
            # that proves nothing - re-run it alone, generously, before judging
            retry.append(idx)
        elif status == 'timeout':
            v = mod.liveness_violation(tasks[idx], res) if hasattr(mod, 'liveness_violation') else None
            if v is None:
                harness_errors.append(f'task {idx} timed out twice:\n{str(res)[-1500:]}')
            else:
                violations.setdefault(v['signature'], (idx, v))
        else:
            harness_errors.append(f'task {idx} {status}: {str(res)[-3000:]}')

    for idx, (status, res) in runner.run_forked(mod.run_task, tasks, jobs=args.jobs,
                                                task_timeout=task_timeout, deadline=deadline):
        handle(idx, status, res, final=False)
        if len(harness_errors) > 3:
            break
    # a wall-clock timeout under load proves nothing: re-run alone, generously
    for idx in retry[:8]:
        status, res = runner.run_one(mod.run_task, tasks[idx], task_timeout=task_timeout * 5)
        handle(idx, status, res, final=True)

    # determinism self-check: re-run a few finished tasks, results must be identical
    selfcheck = {'rerun': 0, 'divergent': 0}
    done_idx = sorted(digests)
    nre = plan.get('selfcheck', 4)
    pick = done_idx[:: max(1, len(done_idx) // max(1, nre))][:nre] if done_idx else []
    for idx, (status, res) in runner.run_forked(mod.run_task, [tasks[i] for i in pick], jobs=args.jobs,
                                                task_timeout=task_timeout * 3):
        selfcheck['rerun'] += 1
        if status != 'ok' or _result_digest(res) != digests[pick[idx]]:
            selfcheck['divergent'] += 1
            harness_errors.append(f'determinism self-check: task {pick[idx]} diverged on re-run ({status})')

    if args.dump_digests:
        with open(args.dump_digests, 'w') as f:
            json.dump({str(k): v for k, v in sorted(digests.items())}, f)
    if harness_errors:
        for e in harness_errors[:5]:
            print('HARNESS-ERROR:', e)
        return 2
    if not acc['results']:
        print('HARNESS-ERROR: no task finished within the budget')
        return 2

    # minimise + write replay files
    out_lines: List[str] = []
    reported = []
    if args.only:
        import re as _re
        violations = {k: v for k, v in violations.items() if _re.search(args.only, k)}
    for sig in sorted(violations):
        idx, v = violations[sig]
        v = dict(v)
        if hasattr(mod, 'minimise') and not args.no_minimise:
            try:
                v = mod.minimise(v)
            except Exception as e:   # minimisation is best effort
                v['minimise_error'] = repr(e)
        # confirm in a fresh process before reporting
        status, res = runner.run_one(mod.replay, v['payload'], task_timeout=task_timeout * 5)
        if status != 'ok' or sig not in [x['signature'] for x in res.get('violations', [])]:
            # fall back to the unminimised payload
            v = dict(violations[sig][1])
            status, res = runner.run_one(mod.replay, v['payload'], task_timeout=task_timeout * 5)
            if status != 'ok' or sig not in [x['signature'] for x in res.get('violations', [])]:
                print(f'HARNESS-ERROR: violation {sig} (task {idx}) does not replay: {status} {str(res)[-800:]}')
                return 2
        v['task_index'] = idx
        v['tier'] = tier
        if v['payload'] is not violations[sig][1]['payload'] and v['payload'] != violations[sig][1]['payload']:
            v['original_payload'] = violations[sig][1]['payload']
            v['original_detail'] = violations[sig][1].get('detail')
        path = write_replay(prop, seed, v)
        reported.append((sig, path, v.get('detail', '')))
        out_lines.append(f'VIOLATION property={prop} replay={path}')

    kmap = {e['signature']: e for e in known.entries}
    for sig in sorted(known_seen):
        print(f'KNOWN-FINDING: property={prop} {kmap[sig]["what_fails"]} [signature {sig}; seen {known_seen[sig]}x]')
    for sig, path, detail in reported:
        print(f'violation signature: {sig}\n  {detail[:600]}')
    for line in out_lines:
        print(line)

    wall = time.monotonic() - t0
    if not args.no_evidence:
        stats_list.sort(key=lambda x: x[0])
        samples.sort(key=lambda x: x[0])
        cov = mod.coverage([s for _, s in stats_list], [s for _, s in samples][:3])
        cov.setdefault('runs_per_hour', int(cov.get('evaluations', 0) / max(wall, 1e-6) * 3600))
        cov['tasks_planned'] = len(tasks)
        cov['tasks_finished'] = acc['results']
        cov['seeds'] = {'VERIF_SEED': seed, 'derivation': 'blake2b(VERIF_SEED, property, task index); one task = one world/run'}
        cov['determinism_selfcheck'] = selfcheck
        cov['known_findings_seen'] = {k: v for k, v in sorted(known_seen.items())}
        cov['violation_signatures'] = [s for s, _, _ in reported]
        ev = {
            'property_id': prop,
            'tier': tier,
            'seed': seed,
            'level': mod.LEVEL,
            'coverage': cov,
            'assumptions': list(getattr(mod, 'ASSUMPTIONS', [])),
            'wall_s': round(wall, 2),
            'violations': len(reported),
        }
        os.makedirs(EVIDENCE_DIR, exist_ok=True)
        tmp = os.path.join(EVIDENCE_DIR, f'.{prop}.json.tmp')
        with open(tmp, 'w') as f:
            json.dump(ev, f, indent=1, sort_keys=True, default=str)
        os.replace(tmp, os.path.join(EVIDENCE_DIR, f'{prop}.json'))
    print(f'{prop} {tier}: {acc["results"]}/{len(tasks)} tasks, {len(reported)} violation signature(s), '
          f'{len(known_seen)} known finding(s), {wall:.1f}s')
    if args.list_signatures:
        for sig in sorted(set(violations) | set(known_seen)):
            print('SIGNATURE', sig)
    return 1 if reported else 0
