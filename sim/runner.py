"""Fork-per-task runner.

The parent ("zygote") imports pydoctor once and does nothing else with it;
every simulated run executes in a child forked from that state, so each run
starts from the same process-global state (ChildTable.last_id, docutils
registries, lru_caches ...).  Results travel back over a pipe as pickles and are
returned in task order, so completion order never influences anything.

Statuses:
    ok       the task function returned; payload is its return value
    exc      the task function raised (a *harness* error unless the check says
             otherwise); payload is the traceback text
    died     the child exited without a result (signal / os._exit elsewhere)
    timeout  wall-clock backstop fired; payload is the faulthandler dump
"""
from __future__ import annotations

import faulthandler
import os
import pickle
import selectors
import signal
import sys
import tempfile
import time
import traceback
from typing import Any, Callable, Iterable, Iterator, List, Optional, Sequence, Tuple

Result = Tuple[str, Any]
_DEPTH = 0


def _child(fn: Callable[[Any], Any], task: Any, wfd: int, timeout: float, dumppath: str) -> None:
    # Never returns.
    global _DEPTH
    code = 0
    try:
        _DEPTH += 1
        # Never outlive the process that waits for us: a task killed by the wall-clock backstop must take the runs it
        # forked itself (C08 and C01 fork one process per simulated run) with it, or a simulated program that spins
        # would keep a core busy for ever.  First-level children lead their own process group (killed as a whole on
        # timeout); every child additionally asks the kernel for SIGKILL when its parent dies.
        try:
            if _DEPTH == 1:
                os.setpgid(0, 0)
        except OSError:
            pass
        try:
            import ctypes
            ctypes.CDLL(None, use_errno=True).prctl(1, int(signal.SIGKILL), 0, 0, 0)      # PR_SET_PDEATHSIG
            if os.getppid() == 1:
                os._exit(71)
        except Exception:
            pass
        try:
            # Only first-level children arm the watchdog: a process forked while its parent has a
            # pending dump_traceback_later() dead-locks when it tries to re-arm it (the lock of the
            # watchdog thread is copied in the locked state).
            if _DEPTH == 1:
                df = open(dumppath, 'w')
                faulthandler.enable(df)
                if timeout > 2:
                    faulthandler.dump_traceback_later(max(1.0, timeout - 1.5), exit=False, file=df)
        except Exception:
            pass
        # stray prints of the simulated program must never reach the check's stdout
        devnull = os.open(os.devnull, os.O_WRONLY)
        os.dup2(devnull, 1)
        if os.environ.get('VERIF_CHILD_STDERR') != '1':
            os.dup2(devnull, 2)
        try:
            res: Result = ('ok', fn(task))
        except BaseException:
            res = ('exc', traceback.format_exc())
        try:
            data = pickle.dumps(res, protocol=4)
        except Exception:
            data = pickle.dumps(('exc', 'unpicklable result:\n' + traceback.format_exc()), protocol=4)
        with os.fdopen(wfd, 'wb') as w:
            w.write(data)
    except BaseException:
        code = 70
    finally:
        os._exit(code)


def run_forked(fn: Callable[[Any], Any],
               tasks: Sequence[Any],
               jobs: int = 0,
               task_timeout: float = 120.0,
               deadline: Optional[float] = None,
               ) -> Iterator[Tuple[int, Result]]:
    """Yield ``(task_index, (status, payload))`` as tasks finish (any order).

    ``deadline`` is a ``time.monotonic()`` value after which no *new* task is
    started (running ones finish); tasks never started are simply not yielded.
    """
    jobs = jobs or int(os.environ.get('VERIF_JOBS', '0')) or (os.cpu_count() or 4)
    sel = selectors.DefaultSelector()
    running = {}  # rfd -> [idx, pid, buf(list), start, dumppath]
    it = iter(enumerate(tasks))
    exhausted = False
    dumpdir = tempfile.mkdtemp(prefix='verif-dump-')
    try:
        while True:
            while not exhausted and len(running) < jobs:
                if deadline is not None and time.monotonic() > deadline:
                    exhausted = True
                    break
                try:
                    idx, task = next(it)
                except StopIteration:
                    exhausted = True
                    break
                rfd, wfd = os.pipe()
                dumppath = os.path.join(dumpdir, f'{idx}.txt')
                sys.stdout.flush()
                sys.stderr.flush()
                pid = os.fork()
                if pid == 0:
                    os.close(rfd)
                    for other in list(running):
                        try:
                            os.close(other)
                        except OSError:
                            pass
                    _child(fn, task, wfd, task_timeout, dumppath)
                os.close(wfd)
                os.set_blocking(rfd, False)
                sel.register(rfd, selectors.EVENT_READ)
                running[rfd] = [idx, pid, [], time.monotonic(), dumppath]
            if not running:
                if exhausted:
                    return
                continue
            events = sel.select(timeout=0.5)
            now = time.monotonic()
            for key, _ in events:
                rfd = key.fd
                ent = running[rfd]
                try:
                    chunk = os.read(rfd, 1 << 20)
                except BlockingIOError:
                    continue
                if chunk:
                    ent[2].append(chunk)
                    continue
                # EOF
                sel.unregister(rfd)
                os.close(rfd)
                del running[rfd]
                idx, pid, buf, _, dumppath = ent
                _, status = os.waitpid(pid, 0)
                data = b''.join(buf)
                if data:
                    try:
                        res = pickle.loads(data)
                    except Exception:
                        res = ('died', f'garbled result ({len(data)} bytes), wait status {status}')
                else:
                    res = ('died', f'no result, wait status {status}; ' + _read(dumppath))
                _rm(dumppath)
                yield idx, res
            for rfd, ent in list(running.items()):
                if now - ent[3] > task_timeout:
                    idx, pid = ent[0], ent[1]
                    _kill_tree(pid)
                    os.waitpid(pid, 0)
                    sel.unregister(rfd)
                    os.close(rfd)
                    del running[rfd]
                    dump = _read(ent[4])
                    _rm(ent[4])
                    yield idx, ('timeout', dump)
    finally:
        for rfd, ent in list(running.items()):
            try:
                _kill_tree(ent[1])
                os.waitpid(ent[1], 0)
            except Exception:
                pass
            try:
                os.close(rfd)
            except OSError:
                pass
        try:
            for f in os.listdir(dumpdir):
                _rm(os.path.join(dumpdir, f))
            os.rmdir(dumpdir)
        except OSError:
            pass


def run_one(fn: Callable[[Any], Any], task: Any, task_timeout: float = 600.0) -> Result:
    """Run a single task in a forked child and wait for it."""
    for _, res in run_forked(fn, [task], jobs=1, task_timeout=task_timeout):
        return res
    return ('died', 'not run')


def _kill_tree(pid: int) -> None:
    """SIGKILL a child and, when it leads a process group of its own, everything it forked."""
    try:
        if os.getpgid(pid) == pid:
            os.killpg(pid, signal.SIGKILL)
    except (ProcessLookupError, PermissionError, OSError):
        pass
    try:
        os.kill(pid, signal.SIGKILL)
    except ProcessLookupError:
        pass


def _read(path: str) -> str:
    try:
        with open(path) as f:
            return f.read()[-4000:]
    except OSError:
        return ''


def _rm(path: str) -> None:
    try:
        os.unlink(path)
    except OSError:
        pass
