"""Run pydoctor's real model builder under a chosen module schedule and observe it.

Seam S1a: the order of ``addModuleString`` calls *is* ``System.unprocessed_modules``
and therefore the processing schedule.  ``SimSystem`` subclasses ``model.System``
(an official plug-in point, ``Options.systemclass``) only to *record* events;
every override ends in ``super()``.
"""
from __future__ import annotations

import contextlib
import os
import hashlib
import io
import sys
from typing import Any, Dict, Iterable, List, Optional, Sequence, Tuple

REPO = os.environ.get('VERIF_REPO') or '/repo'


def ensure_repo() -> None:
    """Make sure `pydoctor` is imported from /repo's working tree."""
    if REPO not in sys.path[:1]:
        sys.path.insert(0, REPO)
    import pydoctor
    f = getattr(pydoctor, '__file__', '') or ''
    if not f.startswith(REPO + '/'):
        raise RuntimeError(f'pydoctor imported from {f!r}, expected {REPO}')


ensure_repo()

from pydoctor import model  # noqa: E402
from pydoctor.options import Options  # noqa: E402

from .world import MARK_RE  # noqa: E402


class SimSystem(model.System):
    """A System that records what happens, nothing else."""

    def __init__(self, options: Optional[Options] = None) -> None:
        self.sim_log: List[Tuple[Any, ...]] = []
        self.sim_msgs: List[Tuple[str, str, int]] = []
        self.sim_depth = 0
        self.sim_steps = 0
        self.sim_step_budget = 0
        super().__init__(options)

    # -- observation ---------------------------------------------------
    def _step(self) -> None:
        self.sim_steps += 1
        if self.sim_step_budget and self.sim_steps > self.sim_step_budget:
            raise StepBudgetExceeded(self.sim_steps)

    def processModule(self, mod: model.Module) -> None:
        self._step()
        self.sim_log.append(('enter', mod.fullName(), self.sim_depth))
        self.sim_depth += 1
        try:
            super().processModule(mod)
        finally:
            self.sim_depth -= 1
            self.sim_log.append(('exit', mod.fullName(), mod.state.name))

    def getProcessedModule(self, modname: str) -> Optional[model.Module]:
        self._step()
        mod = self.allobjects.get(modname)
        if isinstance(mod, model.Module) and mod.state is model.ProcessingState.PROCESSING:
            self.sim_log.append(('partial', modname, self.processing_modules[-1] if self.processing_modules else None))
        return super().getProcessedModule(modname)

    def addObject(self, obj: model.Documentable) -> None:
        self._step()
        super().addObject(obj)

    def handleDuplicate(self, obj: model.Documentable) -> None:
        self.sim_log.append(('dup', obj.fullName()))
        super().handleDuplicate(obj)

    def msg(self, section: str, msg: str, thresh: int = 0, topthresh: int = 100,
            nonl: bool = False, wantsnl: bool = True, once: bool = False) -> None:
        self.sim_msgs.append((section, msg, thresh))
        if section == 'astbuilder' and msg.startswith('moving '):
            self.sim_log.append(('move', msg))
        super().msg(section, msg, thresh, topthresh, nonl, wantsnl, once)


def _install_reparent_log() -> None:
    """Record every re-export move with the identity of the moved object (instrumentation of the harness: the method is
    wrapped in this process only)."""
    orig = model.Documentable.reparent
    if getattr(orig, '_verif_wrapped', False):
        return

    def reparent(self: model.Documentable, new_parent: model.Module, new_name: str) -> None:
        log = getattr(self.system, 'sim_log', None)
        old = self.fullName()
        from_class = isinstance(self.parent, model.Class)
        orig(self, new_parent, new_name)
        if log is not None:
            log.append(('reparent', ident(self) if not isinstance(self, model.Module) else self.name, old, self.fullName(), from_class))
    reparent._verif_wrapped = True      # type: ignore[attr-defined]
    model.Documentable.reparent = reparent      # type: ignore[method-assign]


class StepBudgetExceeded(Exception):
    pass


def interleaving_id(log: Sequence[Tuple[Any, ...]]) -> str:
    """Hash of the nested enter/exit trace plus every read of a half-built module."""
    h = hashlib.blake2b(digest_size=8)
    for ev in log:
        if ev[0] in ('enter', 'exit', 'partial'):
            h.update(repr(ev).encode())
    return h.hexdigest()


def log_digest(log: Sequence[Tuple[Any, ...]]) -> str:
    h = hashlib.blake2b(digest_size=8)
    for ev in log:
        h.update(repr(ev).encode())
    return h.hexdigest()


def make_options(**over: Any) -> Options:
    o = Options.defaults()
    o.verbosity = 3      # so that every msg() runs its formatting code; output is captured
    for k, v in over.items():
        setattr(o, k, v)
    return o


def build(texts: Dict[str, str], pkgs: Dict[str, bool], schedule: Sequence[str],
          options: Optional[Options] = None, step_budget: int = 0,
          systemcls: type = SimSystem) -> Tuple[SimSystem, str, Optional[BaseException]]:
    """Register modules in ``schedule`` order and process them.

    Returns ``(system, captured stdout, exception or None)``.
    """
    system = systemcls(options or make_options())
    system.sim_step_budget = step_budget
    buf = io.StringIO()
    exc: Optional[BaseException] = None
    with contextlib.redirect_stdout(buf):
        try:
            builder = system.systemBuilder(system)
            for modname in schedule:
                parent, _, name = modname.rpartition('.')
                builder.addModuleString(texts[modname], name, parent_name=parent or None,
                                        is_package=pkgs[modname])
            builder.buildModules()
        except StepBudgetExceeded as e:
            exc = e
        except Exception as e:   # a crash of the simulated program is an observation
            exc = e
    return system, buf.getvalue(), exc


# --------------------------------------------------------------------------
# canonical dump

def marker_of(obj: model.Documentable) -> Optional[int]:
    doc = obj.docstring
    if doc:
        m = MARK_RE.search(doc)
        if m:
            return int(m.group(1))
    return None


def ident(obj: model.Documentable) -> str:
    """Identity of an object independent of its current qualified name."""
    if isinstance(obj, model.Module):
        m = marker_of(obj)
        return f'mod:{m}' if m is not None else f'modname:{obj.fullName()}'
    m = marker_of(obj)
    if m is not None:
        return f'M{m}'
    # an object without marker (e.g. created by an alias or a field): identify by parent + name
    par = obj.parent
    return f'anon:{ident(par) if par is not None else ""}:{obj.name}'


def dump(system: model.System) -> Dict[str, Dict[str, Any]]:
    """identity -> facts the C06 statement talks about.  Duplicated identities
    (one marker under two registered names) are reported under key '!dups'."""
    out: Dict[str, Dict[str, Any]] = {}
    dups: List[str] = []
    for name, obj in system.allobjects.items():
        i = ident(obj)
        rec: Dict[str, Any] = {
            'type': type(obj).__mro__[-2].__name__ if False else _basetype(obj),
            'kind': obj.kind.name if obj.kind is not None else None,
            'docstring': obj.docstring,
            'location': name,
            'parent': ident(obj.parent) if obj.parent is not None else None,
        }
        if isinstance(obj, model.Class):
            rec['bases'] = [ident(b) if b is not None else None for b in obj.baseobjects]
            rec['rawbases'] = [s for s, _ in obj.rawbases]
            rec['mro'] = [ident(c) if isinstance(c, model.Documentable) else f'ext:{c}' for c in obj.mro(True)]
        if i in out:
            dups.append(i)
            i = f'{i}@{name}'
        out[i] = rec
    if dups:
        out['!dups'] = {'ids': sorted(dups)}
    return out


def _basetype(obj: model.Documentable) -> str:
    for t in (model.Package, model.Module, model.Class, model.Function, model.Attribute):
        if isinstance(obj, t):
            return t.__name__
    return type(obj).__name__


# --------------------------------------------------------------------------
# file-tree runs through the real CLI entry point (driver.main)

LAST_SYSTEM: List[Any] = []


class MainSimSystem(SimSystem):
    """Selected with ``--system-class sim.simsystem.MainSimSystem`` so that a run of
    ``driver.main`` leaves its System behind for the oracle."""

    def __init__(self, options: Optional[Options] = None) -> None:
        super().__init__(options)
        self.sim_registered: List[str] = []
        LAST_SYSTEM.append(self)

    def _addUnprocessedModule(self, mod: model.Module) -> None:
        self.sim_registered.append(mod.fullName())
        super()._addUnprocessedModule(mod)


class listing_order:
    """S1b: make the file system list directory entries in a chosen order and keep
    ``System.addPackage`` from re-sorting them (``pydoctor.model.sorted`` is a
    module-level name lookup that can be rebound from outside)."""

    def __init__(self, order: Dict[str, List[str]], preserve: bool = True) -> None:
        self.order = {os.path.abspath(k): v for k, v in order.items()}
        self.preserve = preserve
        self.hits = 0

    def __enter__(self) -> 'listing_order':
        self._listdir = os.listdir
        self._scandir = os.scandir

        def listdir(path: Any = '.') -> List[str]:
            names = self._listdir(path)
            try:
                key = os.path.abspath(os.fspath(path))
            except TypeError:
                return names
            want = self.order.get(key)
            if want is None:
                return names
            self.hits += 1
            rank = {n: i for i, n in enumerate(want)}
            return sorted(names, key=lambda n: (rank.get(n, len(rank)), n))
        os.listdir = listdir
        if self.preserve:
            model.sorted = lambda it, **kw: list(it)   # type: ignore[attr-defined]
        return self

    def __exit__(self, *a: Any) -> None:
        os.listdir = self._listdir
        if self.preserve and 'sorted' in model.__dict__:
            del model.sorted    # type: ignore[attr-defined]


def listing_for_schedule(srcroot: str, modules: Dict[str, Any], sched: Sequence[str]) -> Dict[str, List[str]]:
    """directory -> entry names in the order that makes addPackage register ``sched``."""
    order: Dict[str, List[str]] = {}
    for m in sched:
        par = m.rpartition('.')[0]
        if not par:
            continue
        d = os.path.join(srcroot, *par.split('.'))
        name = m.rpartition('.')[2]
        order.setdefault(d, []).append(name if modules[m]['pkg'] else name + '.py')
    return order


def run_main(argv: List[str], listing: Optional[Dict[str, List[str]]] = None) -> Dict[str, Any]:
    """Run driver.main(argv) in this process with the schedule seam installed.
    Returns exit code / exception / captured stdout / the System."""
    from pydoctor import driver
    del LAST_SYSTEM[:]
    buf = io.StringIO()
    res: Dict[str, Any] = {'exit': None, 'exc': None, 'system': None}
    lo = listing_order(listing or {}, preserve=listing is not None)
    with lo, contextlib.redirect_stdout(buf), contextlib.redirect_stderr(buf):
        try:
            res['exit'] = driver.main(['--system-class', 'sim.simsystem.MainSimSystem'] + argv)
        except SystemExit as e:
            res['exc'] = ('SystemExit', str(e.code))
        except BaseException as e:   # what C01 is about
            import traceback
            res['exc'] = (type(e).__name__, str(e)[:300], traceback.format_exc()[-1500:])
    res['stdout'] = buf.getvalue()
    res['system'] = LAST_SYSTEM[-1] if LAST_SYSTEM else None
    res['listing_hits'] = lo.hits
    return res


_install_reparent_log()
