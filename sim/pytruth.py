"""Validate a world's ground truth against CPython itself.

The world is written to a scratch directory and imported with the running
interpreter (in a forked child, so ``sys.modules`` pollution does not matter).
Every binding the generator recorded, every base-class reference and every MRO
is compared with what Python actually bound.  C04, C05 and C07 are stated
against "what Python would do", so this is the independent check of the oracle
the design promises.  Only meaningful for acyclic worlds.
"""
from __future__ import annotations

import importlib
import os
import shutil
import sys
import tempfile
from typing import Any, Dict, List, Optional

from . import world as W


def scratch_dir(prefix: str = 'verif-') -> str:
    base = os.environ.get('VERIF_SCRATCH') or ('/dev/shm' if os.path.isdir('/dev/shm') else tempfile.gettempdir())
    return tempfile.mkdtemp(prefix=prefix, dir=base)


def write_tree(root: str, files: Dict[str, str]) -> None:
    for rel, text in files.items():
        path = os.path.join(root, rel)
        os.makedirs(os.path.dirname(path), exist_ok=True)
        with open(path, 'w', encoding='utf-8') as f:
            f.write(text)


def _marker(obj: Any) -> Optional[int]:
    if isinstance(obj, str):
        m = W.MARK_RE.fullmatch(obj)
        return int(m.group(1)) if m else None
    doc = getattr(obj, '__doc__', None)
    if isinstance(obj, property):
        doc = obj.fget.__doc__ if obj.fget else None
    if isinstance(obj, (staticmethod, classmethod)):
        doc = obj.__func__.__doc__
    if doc:
        m = W.MARK_RE.search(doc)
        if m:
            return int(m.group(1))
    return None


def check_world(world: Dict[str, Any]) -> List[str]:
    """Return a list of disagreements between recorded truth and CPython (empty = agree)."""
    problems: List[str] = []
    truth = world['truth']
    root = scratch_dir('verif-pytruth-')
    try:
        write_tree(root, W.world_files(world, tc_true=True))
        sys.path.insert(0, root)
        mods = {}
        for name in truth['import_order']:
            for k in list(sys.modules):
                pass
            try:
                mods[name] = importlib.import_module(name)
            except Exception as e:
                problems.append(f'import {name}: {type(e).__name__}: {e}')
                return problems
        for modname, ns in truth['ns'].items():
            pm = mods[modname]
            for name, b in ns.items():
                if not hasattr(pm, name):
                    problems.append(f'{modname}.{name}: not bound by Python')
                    continue
                val = getattr(pm, name)
                if b[0] == 'd':
                    if _marker(val) != b[1]:
                        problems.append(f'{modname}.{name}: truth M{b[1]} python {_marker(val)}')
                else:
                    if getattr(val, '__name__', None) != b[1]:
                        problems.append(f'{modname}.{name}: truth module {b[1]} python {getattr(val, "__name__", val)!r}')
        # base-class references and MROs
        cls_by_id: Dict[int, Any] = {}
        for modname, m in world['modules'].items():
            for scope, st in W.iter_stmts(m['body']):
                if st['k'] != 'class':
                    continue
                obj: Any = mods[modname]
                try:
                    for cid in scope:
                        obj = getattr(obj, truth['defs'][str(cid)]['name'])
                    cls = getattr(obj, st['name'])
                except AttributeError as e:
                    problems.append(f'class M{st["id"]} not found: {e}')
                    continue
                cls_by_id[st['id']] = cls
                got = [_marker(b) for b in cls.__bases__ if b is not object and getattr(b, '__name__', '') != 'Generic']
                want = [r['id'] for r in st['bases']]
                if got != want:
                    problems.append(f'bases of M{st["id"]}: truth {want} python {got}')
        # class namespaces: members, imports and aliases in class bodies
        for cid, cls in cls_by_id.items():
            for name, b in truth['cns'].get(str(cid), {}).items():
                if name not in cls.__dict__:
                    if truth['defs'].get(str(b[1]), {}).get('kind') == 'ivar' if b[0] == 'd' else False:
                        continue      # set in __init__: not a class attribute
                    problems.append(f'class M{cid}: {name!r} not bound in the class body')
                    continue
                val = cls.__dict__[name]
                if b[0] == 'd':
                    if _marker(val) != b[1] and not truth['defs'][str(b[1])].get('nodoc'):
                        problems.append(f'class M{cid}.{name}: truth M{b[1]} python {_marker(val)}')
                elif getattr(val, '__name__', None) != b[1]:
                    problems.append(f'class M{cid}.{name}: truth module {b[1]} python {getattr(val, "__name__", val)!r}')
        for cid, cls in cls_by_id.items():
            want_mro = ref_mro(world, cid)
            got_mro = [_marker(c) for c in cls.__mro__ if c is not object and getattr(c, '__name__', '') != 'Generic']
            if want_mro != got_mro:
                problems.append(f'mro of M{cid}: RefC3 {want_mro} python {got_mro}')
    finally:
        try:
            sys.path.remove(root)
        except ValueError:
            pass
        shutil.rmtree(root, ignore_errors=True)
    return problems


# --------------------------------------------------------------------------
# RefC3: the C3 merge, written from the definition

def c3_merge(seqs: List[List[int]]) -> Optional[List[int]]:
    seqs = [list(s) for s in seqs if s]
    out: List[int] = []
    while seqs:
        for s in seqs:
            head = s[0]
            if not any(head in t[1:] for t in seqs):
                break
        else:
            return None
        out.append(head)
        seqs = [[x for x in s if x != head] for s in seqs]
        seqs = [s for s in seqs if s]
    return out


def ref_mro(world: Dict[str, Any], cid: int, _memo: Optional[Dict[int, Any]] = None) -> Optional[List[int]]:
    """Linearisation of class ``cid`` over the abstract hierarchy, or None if inconsistent
    (for the class or any ancestor)."""
    defs = world['truth']['defs']
    memo = _memo if _memo is not None else {}
    if cid in memo:
        return memo[cid]
    bases = [b for b in defs[str(cid)].get('bases', []) if b is not None]
    if len(set(bases)) != len(bases):
        memo[cid] = None
        return None
    lins = []
    for b in bases:
        lb = ref_mro(world, b, memo)
        if lb is None:
            memo[cid] = None
            return None
        lins.append(lb)
    merged = c3_merge(lins + [list(bases)])
    res = None if merged is None else [cid] + merged
    memo[cid] = res
    return res
