"""Simulated disk faults on source files (S7): what a crash, a bad sector or a
misdirected write leaves behind.  Applied to the file before the run."""
from __future__ import annotations

from typing import Any, Dict, List, Tuple

from .prng import Rng

KINDS = ['src.torn', 'src.zero_tail', 'src.bitflip', 'src.lost', 'src.dup_block', 'src.misdirected', 'src.garbage',
         'src.torn_utf8', 'src.nul']


def plan_fault(rng: Rng, files: Dict[str, bytes], victim: str, kind: str) -> Dict[str, Any]:
    data = files[victim]
    n = len(data)
    f: Dict[str, Any] = {'kind': kind, 'victim': victim}
    if kind in ('src.torn', 'src.zero_tail', 'src.torn_utf8'):
        f['offset'] = rng.below(n + 1) if n else 0
    elif kind == 'src.bitflip':
        k = rng.randint(1, 3)
        f['flips'] = [[rng.below(max(n, 1)), rng.below(8)] for _ in range(k)]
    elif kind == 'src.dup_block':
        a = rng.below(max(n, 1))
        f['start'] = a
        f['length'] = rng.randint(1, max(1, min(64, n - a)))
        f['at'] = rng.below(n + 1)
    elif kind == 'src.misdirected':
        others = sorted(k for k in files if k != victim)
        f['source'] = rng.choice(others) if others else victim
    elif kind == 'src.garbage':
        f['bytes'] = [rng.below(256) for _ in range(rng.randint(1, 200))]
        f['at'] = rng.below(n + 1)
    elif kind == 'src.nul':
        f['at'] = rng.below(n + 1)
        f['count'] = rng.randint(1, 16)
    return f


def apply_fault(files: Dict[str, bytes], f: Dict[str, Any]) -> bytes:
    data = files[f['victim']]
    kind = f['kind']
    if kind == 'src.torn':
        return data[:f['offset']]
    if kind == 'src.torn_utf8':
        # the cut lands inside a multi-byte sequence: append the first byte of one
        return data[:f['offset']] + b'\xe2\x82'
    if kind == 'src.zero_tail':
        return data[:f['offset']] + b'\0' * (len(data) - f['offset'])
    if kind == 'src.bitflip':
        b = bytearray(data)
        for off, bit in f['flips']:
            if off < len(b):
                b[off] ^= (1 << bit)
        return bytes(b)
    if kind == 'src.lost':
        return b''
    if kind == 'src.dup_block':
        blk = data[f['start']:f['start'] + f['length']]
        return data[:f['at']] + blk + data[f['at']:]
    if kind == 'src.misdirected':
        return files[f['source']]
    if kind == 'src.garbage':
        return data[:f['at']] + bytes(f['bytes']) + data[f['at']:]
    if kind == 'src.nul':
        return data[:f['at']] + b'\0' * f['count'] + data[f['at']:]
    raise ValueError(kind)
