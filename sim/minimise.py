"""Delta-debugging minimiser for world-based violations.

A candidate is accepted only if a replay in a fresh forked process still yields
the *same signature*.  Bounded by a candidate budget.
"""
from __future__ import annotations

import copy
from typing import Any, Callable, Dict, Iterator, List, Optional

from . import runner

BUDGET = 300


def _sizes(world: Dict[str, Any]) -> Dict[str, int]:
    from .world import iter_stmts
    return {'modules': len(world['modules']),
            'statements': sum(1 for m in world['modules'].values() for _ in iter_stmts(m['body']))}


def _candidates(payload: Dict[str, Any]) -> Iterator[Dict[str, Any]]:
    world = payload['world']
    mods = list(world['modules'])
    # 1. drop a module (with its subtree)
    for m in reversed(mods):
        if len(mods) <= 1:
            break
        sub = [x for x in mods if x == m or x.startswith(m + '.')]
        if len(sub) == len(mods):
            continue
        p = copy.deepcopy(payload)
        for x in sub:
            del p['world']['modules'][x]
        if 'schedules' in p:
            p['schedules'] = [[s for s in sc if s not in sub] for sc in p['schedules']]
        if 'schedule' in p:
            p['schedule'] = [s for s in p['schedule'] if s not in sub]
        yield p
    # 2. drop a statement (top level, then inside classes)
    for m in mods:
        body = world['modules'][m]['body']
        for i in reversed(range(len(body))):
            p = copy.deepcopy(payload)
            del p['world']['modules'][m]['body'][i]
            yield p
        for i, st in enumerate(body):
            if st['k'] == 'class':
                for j in reversed(range(len(st['body']))):
                    p = copy.deepcopy(payload)
                    del p['world']['modules'][m]['body'][i]['body'][j]
                    yield p
                for j in reversed(range(len(st.get('bases', [])))):
                    p = copy.deepcopy(payload)
                    del p['world']['modules'][m]['body'][i]['bases'][j]
                    yield p
            if st['k'] == 'from' and isinstance(st['names'], list) and len(st['names']) > 1:
                for j in reversed(range(len(st['names']))):
                    p = copy.deepcopy(payload)
                    del p['world']['modules'][m]['body'][i]['names'][j]
                    yield p
    # 3. __all__
    for m in mods:
        al = world['modules'][m]['all']
        if al is not None:
            p = copy.deepcopy(payload)
            p['world']['modules'][m]['all'] = None
            yield p
            for j in reversed(range(len(al))):
                p = copy.deepcopy(payload)
                del p['world']['modules'][m]['all'][j]
                yield p
    # 4. faults
    if isinstance(payload.get('faults'), list) and len(payload['faults']) > 1:
        for j in reversed(range(len(payload['faults']))):
            p = copy.deepcopy(payload)
            del p['faults'][j]
            yield p


def minimise_world_violation(v: Dict[str, Any], replay: Callable[[Dict[str, Any]], Dict[str, Any]],
                             budget: int = BUDGET) -> Dict[str, Any]:
    sig = v['signature']
    payload = v['payload']
    before = _sizes(payload['world'])
    spent = 0
    progress = True
    detail = v.get('detail')
    while progress and spent < budget:
        progress = False
        for cand in _candidates(payload):
            if spent >= budget:
                break
            spent += 1
            status, res = runner.run_one(replay, cand, task_timeout=120)
            if status != 'ok':
                continue
            hit = [x for x in res.get('violations', []) if x['signature'] == sig]
            if hit:
                payload = cand
                detail = hit[0].get('detail', detail)
                progress = True
                break
    out = dict(v)
    out['payload'] = payload
    out['detail'] = detail
    out['minimised_from'] = {'before': before, 'after': _sizes(payload['world']), 'candidates_tried': spent}
    return out
