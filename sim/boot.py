"""Bootstrap executed in a *fresh interpreter* for process-level simulated runs:

    PYTHONHASHSEED=<scheduled> TZ=<scheduled> python -B /verif/sim/boot.py <cfg.json>

cfg = {
  "argv": [...],                    pydoctor command line
  "listing_seed": int | null,       S2: every directory listing is permuted by blake2b(seed, path)
  "now": float | null,              S4: what datetime.now() / time.time() report (epoch seconds)
  "preserve_order": bool,           S1b: rebind pydoctor.model.sorted to an order-preserving stand-in,
                                    so that the (permuted) listing order becomes the processing schedule
  "result": path                    where to write {"exit": code, "registered": [...]} 
}
The seams are installed before pydoctor is imported; pydoctor itself is the
unmodified code in /repo.
"""
import hashlib
import json
import os
import struct
import sys


_ROOT = ['']


def _perm_key(seed, path, name):
    # the scratch directory has a random name: key the permutation on the path below it
    if _ROOT[0] and path.startswith(_ROOT[0]):
        path = path[len(_ROOT[0]):]
    if seed == -1:
        return name          # the reference listing: sorted by name (never the file system's own order)
    h = hashlib.blake2b(f'{seed}\0{path}\0{name}'.encode('utf-8', 'surrogateescape'), digest_size=8).digest()
    return struct.unpack('<Q', h)[0]


def install(cfg):
    stats = {'listdir': 0, 'scandir': 0, 'now': 0, 'time': 0}
    seed = cfg.get('listing_seed')
    _ROOT[0] = cfg.get('listing_root') or ''
    if seed is not None:
        real_listdir = os.listdir
        real_scandir = os.scandir

        def listdir(path='.'):
            names = real_listdir(path)
            stats['listdir'] += 1
            try:
                p = os.fspath(path)
            except TypeError:
                return names
            if isinstance(p, bytes):
                return names
            return sorted(names, key=lambda n: _perm_key(seed, os.path.abspath(p), n))

        class _ScandirIter:
            def __init__(self, path):
                it = real_scandir(path)
                try:
                    ents = list(it)
                finally:
                    it.close()
                p = os.path.abspath(os.fspath(path)) if not isinstance(path, int) else str(path)
                self._ents = sorted(ents, key=lambda e: _perm_key(seed, p, e.name if isinstance(e.name, str) else e.name.decode('utf-8', 'surrogateescape')))
                self._i = 0
                stats['scandir'] += 1

            def __iter__(self):
                return self

            def __next__(self):
                if self._i >= len(self._ents):
                    raise StopIteration
                e = self._ents[self._i]
                self._i += 1
                return e

            def close(self):
                pass

            def __enter__(self):
                return self

            def __exit__(self, *a):
                return False

        def scandir(path='.'):
            return _ScandirIter(path)

        os.listdir = listdir
        os.scandir = scandir
    now = cfg.get('now')
    if now is not None:
        import datetime as _dt
        import time as _time
        real_datetime = _dt.datetime

        class SimDateTime(real_datetime):
            @classmethod
            def now(cls, tz=None):
                stats['now'] += 1
                return real_datetime.fromtimestamp(now, tz)

            @classmethod
            def utcnow(cls):
                stats['now'] += 1
                return real_datetime.utcfromtimestamp(now)

            @classmethod
            def today(cls):
                stats['now'] += 1
                return real_datetime.fromtimestamp(now)

        class _DtShim:
            """Stand-in for the ``datetime`` module as seen by pydoctor.model / pydoctor.driver."""
            def __getattr__(self, name):
                return getattr(_dt, name)
        shim = _DtShim()
        shim.datetime = SimDateTime
        # the simulated clock also drives time.time(), advancing 1ms per reading
        state = {'t': float(now)}

        def sim_time():
            stats['time'] += 1
            state['t'] += 0.001
            return state['t']
        _time.time = sim_time
        cfg['_dt_shim'] = shim
    return stats


def main():
    with open(sys.argv[1]) as f:
        cfg = json.load(f)
    sys.path.insert(0, cfg.get('repo', '/repo'))
    stats = install(cfg)
    import pydoctor.model as model
    import pydoctor.driver as driver
    if not model.__file__.startswith(cfg.get('repo', '/repo') + '/'):
        print('BOOT-ERROR: pydoctor imported from', model.__file__)
        sys.exit(97)
    if cfg.get('_dt_shim') is not None:
        model.datetime = cfg['_dt_shim']
        driver.datetime = cfg['_dt_shim']
    registered = []
    if cfg.get('preserve_order'):
        model.sorted = lambda it, **kw: list(it)
    if cfg.get('record_registration') or cfg.get('preserve_order'):
        orig = model.System._addUnprocessedModule

        def rec(self, mod):
            registered.append(mod.fullName())
            return orig(self, mod)
        model.System._addUnprocessedModule = rec
    code = 99
    try:
        code = driver.main(cfg['argv'])
    except SystemExit as e:
        code = e.code if isinstance(e.code, int) else 98
        if not isinstance(e.code, int):
            print('SystemExit:', e.code)
    except BaseException as e:
        import traceback
        traceback.print_exc(file=sys.stdout)
        print(f'BOOT-UNCAUGHT: {type(e).__name__}: {e}')
        code = 96
    finally:
        sys.stdout.flush()
        if cfg.get('result'):
            with open(cfg['result'], 'w') as f:
                json.dump({'exit': code, 'registered': registered, 'seam_stats': stats}, f)
    sys.exit(code if isinstance(code, int) else 95)


if __name__ == '__main__':
    main()
