"""Simulated network for the intersphinx consumer (S6).

Seam: ``requests.adapters.HTTPAdapter.get_connection_with_tls_context`` is the one
place where requests obtains a connection pool.  It is replaced by a function
returning a ``SimPool`` whose ``urlopen()`` builds a *real*
``urllib3.response.HTTPResponse`` over a fault-injecting byte stream.  Everything
above it is real: requests.Session, CacheControl (+FileCache), IntersphinxCache,
SphinxInventory.
"""
from __future__ import annotations

import gzip
import io
import zlib
from typing import Any, Dict, List, Optional, Tuple

import urllib3
from urllib3.exceptions import ProtocolError, ReadTimeoutError
from urllib3.response import HTTPResponse

from .prng import Rng


class ShortReadStream(io.RawIOBase):
    """Delivers at most ``chunk`` bytes per read; optionally dies after ``die_at`` bytes."""

    def __init__(self, data: bytes, chunk: int = 0, die_at: Optional[int] = None, die_exc: str = 'reset') -> None:
        self._data = data
        self._pos = 0
        self._chunk = chunk
        self._die_at = die_at
        self._die_exc = die_exc
        self.reads = 0

    def readable(self) -> bool:
        return True

    def readinto(self, b: Any) -> int:
        self.reads += 1
        if self._die_at is not None and self._pos >= self._die_at:
            if self._die_exc == 'timeout':
                import socket
                raise socket.timeout('simulated read timeout')
            raise ConnectionResetError(104, 'simulated connection reset by peer')
        n = len(b)
        if self._chunk:
            n = min(n, self._chunk)
        if self._die_at is not None:
            n = min(n, self._die_at - self._pos)
        chunk = self._data[self._pos:self._pos + n]
        b[:len(chunk)] = chunk
        self._pos += len(chunk)
        return len(chunk)


class SimPool:
    """What the adapter gets instead of a urllib3 connection pool."""

    def __init__(self, net: 'SimNet', host: str) -> None:
        self.net = net
        self.host = host
        self.proxy = None
        self.conn_kw: Dict[str, Any] = {}

    def urlopen(self, method: str, url: str, body: Any = None, headers: Any = None, **kw: Any) -> HTTPResponse:
        return self.net.serve(self.host, method, url, dict(headers or {}))

    def close(self) -> None:
        pass


class SimNet:
    """Maps URLs to (bytes, transfer fault).  Records what happened."""

    def __init__(self) -> None:
        self.routes: Dict[str, Dict[str, Any]] = {}
        self.log: List[Tuple[Any, ...]] = []

    def add(self, url_path: str, data: bytes, fault: Optional[Dict[str, Any]] = None) -> None:
        self.routes[url_path] = {'data': data, 'fault': fault or {'kind': 'none'}}

    def serve(self, host: str, method: str, url: str, headers: Dict[str, str]) -> HTTPResponse:
        route = self.routes.get(url)
        self.log.append(('request', method, url))
        if route is None:
            return self._response(404, b'<html><body>404 Not Found</body></html>', {'Content-Type': 'text/html'})
        f = route['fault']
        data = route['data']
        kind = f['kind']
        self.log.append(('fault', kind))
        if kind == 'net.drop':
            raise ProtocolError('Connection aborted.', ConnectionResetError(104, 'simulated reset'))
        if kind == 'net.timeout':
            raise ReadTimeoutError(None, url, 'simulated read timeout')   # type: ignore[arg-type]
        if kind == 'net.http_error':
            return self._response(f['status'], b'<html><head><title>Error</title></head><body><h1>%d</h1></body></html>' % f['status'],
                                  {'Content-Type': 'text/html'})
        if kind == 'net.empty':
            return self._response(200, b'', {})
        if kind == 'net.redirect_loop':
            return self._response(302, b'', {'Location': 'http://sim.invalid' + url})
        if kind == 'net.redirect_ok':
            # one redirect to a mirror that serves the inventory
            self.routes.setdefault('/mirror/objects.inv', {'data': data, 'fault': {'kind': 'none'}})
            return self._response(301, b'', {'Location': 'http://sim.invalid/mirror/objects.inv'})
        if kind == 'net.bad_content_encoding':
            # the server claims gzip but sends something else: requests raises ContentDecodingError
            return self._response(200, data, {'Content-Encoding': 'gzip', 'Content-Length': str(len(data))})
        if kind == 'net.reset_midway':
            return self._response(200, data, {'Content-Length': str(len(data))},
                                  stream=ShortReadStream(data, chunk=f.get('chunk', 0), die_at=f['at'], die_exc=f.get('exc', 'reset')))
        if kind == 'net.short_content_length':
            # server announces more than it sends
            return self._response(200, data[:f['at']], {'Content-Length': str(len(data))})
        if kind == 'net.short_reads':
            return self._response(200, data, {'Content-Length': str(len(data))}, stream=ShortReadStream(data, chunk=f['chunk']))
        if kind == 'net.gzip_transport':
            gz = gzip.compress(data, mtime=0)
            return self._response(200, gz, {'Content-Encoding': 'gzip', 'Content-Length': str(len(gz))})
        # payload-level damage has already been applied to `data`
        return self._response(200, data, {'Content-Length': str(len(data)), 'Content-Type': 'application/octet-stream'})

    def _response(self, status: int, data: bytes, headers: Dict[str, str], stream: Any = None) -> HTTPResponse:
        body = stream if stream is not None else io.BytesIO(data)
        h = {'Date': 'Thu, 01 Jan 2015 00:00:00 GMT'}
        h.update(headers)
        return HTTPResponse(body=body, headers=h, status=status, reason='SIM', preload_content=False,
                            decode_content=False, request_method='GET', version=11)


class installed:
    """Context manager installing the SimNet under requests."""

    def __init__(self, net: SimNet) -> None:
        self.net = net

    def __enter__(self) -> SimNet:
        from requests.adapters import HTTPAdapter
        self._orig = HTTPAdapter.get_connection_with_tls_context
        net = self.net

        def get_connection_with_tls_context(adapter: Any, request: Any, verify: Any, proxies: Any = None, cert: Any = None) -> SimPool:
            from urllib.parse import urlparse
            return SimPool(net, urlparse(request.url).netloc)
        HTTPAdapter.get_connection_with_tls_context = get_connection_with_tls_context   # type: ignore[method-assign]
        self._cert_verify = HTTPAdapter.cert_verify
        HTTPAdapter.cert_verify = lambda self, conn, url, verify, cert: None   # type: ignore[method-assign]
        return net

    def __exit__(self, *a: Any) -> None:
        from requests.adapters import HTTPAdapter
        HTTPAdapter.get_connection_with_tls_context = self._orig   # type: ignore[method-assign]
        HTTPAdapter.cert_verify = self._cert_verify   # type: ignore[method-assign]


# --------------------------------------------------------------------------
# inventories: reference grammar, builder, faults

HEADER = b'# Sphinx inventory version 2\n# Project: %s\n# Version: %s\n# The rest of this file is compressed with zlib.\n'


def build_inventory(lines: List[str], project: str = 'sim', version: str = '1.0') -> bytes:
    return HEADER % (project.encode(), version.encode()) + zlib.compress(''.join(l + '\n' for l in lines).encode('utf-8'))


def split_inventory(data: bytes) -> Tuple[List[bytes], bytes]:
    """(header comment lines, compressed rest) -- as the format defines it: the first four lines are the header."""
    head = []
    rest = data
    while True:
        parts = rest.split(b'\n', 1)
        if len(parts) != 2 or not parts[0].startswith(b'#'):
            break
        head.append(parts[0])
        rest = parts[1]
    return head, rest


def harness_decode(data: Optional[bytes]) -> Optional[List[str]]:
    """What the bytes actually delivered contain, decided by the harness: the list
    of text lines, or None when the transfer as a whole is unusable (nothing
    delivered, empty, does not decompress, not UTF-8)."""
    if not data:
        return None
    head, rest = split_inventory(data)
    try:
        raw = zlib.decompress(rest)
    except zlib.error:
        return None
    try:
        return raw.decode('utf-8').splitlines()
    except UnicodeDecodeError:
        return None


def ref_parse_line(line: str) -> Optional[Tuple[str, str, str, str, str]]:
    """Reference inventory line grammar (Sphinx v2): ``name domain:role priority uri dispname``.
    The name may contain spaces; the columns are anchored at the first integer token that is
    preceded by a ``domain:role`` token; dispname is the rest and is not empty.  Returns None
    for a line that does not conform."""
    toks = line.rstrip().split()
    for i in range(2, len(toks)):
        t = toks[i]
        if (t.lstrip('-').isdigit() and (t[0] != '-' or len(t) > 1)) and ':' in toks[i - 1]:
            if i + 2 >= len(toks) + 0 and i + 1 >= len(toks):
                return None
            if len(toks) < i + 3:
                return None
            return ' '.join(toks[:i - 1]), toks[i - 1], t, toks[i + 1], ' '.join(toks[i + 2:])
    return None


def expand_uri(name: str, uri: str) -> str:
    return uri[:-1] + name if uri.endswith('$') else uri


MANGLE_OPS = ['drop_location_and_display', 'drop_display', 'drop_priority', 'nonnumeric_priority', 'only_name', 'empty',
              'extra_spaces', 'tab_separated', 'numeric_name', 'cut_after_priority', 'huge_priority', 'cut_after_role',
              'leading_space', 'trailing_dollar_only', 'unicode_name', 'control_chars']


def mangle_line(line: str, op: str, rng: Rng) -> str:
    parts = line.split(' ')
    if op == 'drop_location_and_display':
        return ' '.join(parts[:3])
    if op == 'cut_after_priority':
        return ' '.join(parts[:3])
    if op == 'cut_after_role':
        return ' '.join(parts[:2])
    if op == 'drop_display':
        return ' '.join(parts[:4])
    if op == 'drop_priority':
        return ' '.join(parts[:2] + parts[3:])
    if op == 'nonnumeric_priority':
        return ' '.join(parts[:2] + ['x'] + parts[3:])
    if op == 'only_name':
        return parts[0]
    if op == 'empty':
        return ''
    if op == 'extra_spaces':
        return '  '.join(parts)
    if op == 'tab_separated':
        return '\t'.join(parts)
    if op == 'numeric_name':
        return ' '.join(['1', '2', '3'] + parts[3:4])
    if op == 'huge_priority':
        return ' '.join(parts[:2] + ['9' * 400] + parts[3:])
    if op == 'leading_space':
        return ' ' + line
    if op == 'trailing_dollar_only':
        return ' '.join(parts[:3] + ['$', '-'])
    if op == 'unicode_name':
        return 'тест.éè ' + ' '.join(parts[1:])
    if op == 'control_chars':
        return parts[0] + '\x00\x0b\x1c ' + ' '.join(parts[1:])
    raise ValueError(op)


TRANSFER_KINDS = ['net.drop', 'net.timeout', 'net.http_error', 'net.empty', 'net.truncate', 'net.bitflip', 'net.recompress',
                  'net.header', 'net.short_reads', 'net.reset_midway', 'net.short_content_length', 'net.gzip_transport',
                  'net.garbage', 'inv.nonutf8', 'net.redirect_loop', 'net.bad_content_encoding', 'net.redirect_ok']


def plan_transfer_fault(rng: Rng, data: bytes, kind: str) -> Dict[str, Any]:
    f: Dict[str, Any] = {'kind': kind}
    n = len(data)
    if kind == 'net.http_error':
        f['status'] = rng.choice([400, 403, 404, 410, 500, 502, 503])
    elif kind in ('net.truncate', 'net.reset_midway', 'net.short_content_length'):
        head, rest = split_inventory(data)
        hl = n - len(rest)
        # bias the cut into the compressed stream and the header
        f['at'] = rng.weighted([(rng.below(n + 1), 2), (hl + rng.below(max(1, len(rest))), 4), (rng.below(max(1, hl)), 2)])
        if kind == 'net.reset_midway':
            f['chunk'] = rng.choice([0, 1, 7, 64])
            f['exc'] = rng.choice(['reset', 'timeout'])
    elif kind == 'net.bitflip':
        f['flips'] = [[rng.below(max(1, n)), rng.below(8)] for _ in range(rng.randint(1, 3))]
    elif kind == 'net.recompress':
        f['how'] = rng.choice(['gzip', 'raw-deflate', 'none', 'zlib-twice', 'bz2'])
    elif kind == 'net.header':
        f['how'] = rng.choice(['no-header', 'version-1', 'missing-compress-line', 'extra-comment', 'crlf', 'bom', 'blank-first-line'])
    elif kind == 'net.short_reads':
        f['chunk'] = rng.choice([1, 2, 5, 13])
    elif kind == 'net.garbage':
        f['bytes'] = [rng.below(256) for _ in range(rng.randint(1, 300))]
    elif kind == 'inv.nonutf8':
        f['at_line'] = rng.below(50)
        f['bytes'] = rng.choice([[0xff, 0xfe], [0xc3, 0x28], [0xe2, 0x82], [0x80]])
    return f


def apply_payload_fault(data: bytes, f: Dict[str, Any]) -> bytes:
    """Payload-level damage (what is stored on / sent by the remote side)."""
    kind = f['kind']
    if kind == 'net.truncate':
        return data[:f['at']]
    if kind == 'net.bitflip':
        b = bytearray(data)
        for off, bit in f['flips']:
            if off < len(b):
                b[off] ^= 1 << bit
        return bytes(b)
    if kind == 'net.garbage':
        return bytes(f['bytes'])
    head, rest = split_inventory(data)
    headb = b''.join(h + b'\n' for h in head)
    if kind == 'net.recompress':
        try:
            raw = zlib.decompress(rest)
        except zlib.error:
            return data
        how = f['how']
        if how == 'gzip':
            return headb + gzip.compress(raw, mtime=0)
        if how == 'raw-deflate':
            c = zlib.compressobj(wbits=-15)
            return headb + c.compress(raw) + c.flush()
        if how == 'none':
            return headb + raw
        if how == 'zlib-twice':
            return headb + zlib.compress(zlib.compress(raw))
        if how == 'bz2':
            import bz2
            return headb + bz2.compress(raw)
    if kind == 'net.header':
        how = f['how']
        if how == 'no-header':
            return rest
        if how == 'version-1':
            return b'# Sphinx inventory version 1\n' + b''.join(h + b'\n' for h in head[1:]) + rest
        if how == 'missing-compress-line':
            return b''.join(h + b'\n' for h in head[:-1]) + rest
        if how == 'extra-comment':
            return headb + b'# one more comment line\n' + rest
        if how == 'crlf':
            return b''.join(h + b'\r\n' for h in head) + rest
        if how == 'bom':
            return b'\xef\xbb\xbf' + data
        if how == 'blank-first-line':
            return b'\n' + data
    if kind == 'inv.nonutf8':
        try:
            raw = zlib.decompress(rest)
        except zlib.error:
            return data
        lines = raw.split(b'\n')
        i = f['at_line'] % max(1, len(lines))
        lines[i] = lines[i][:len(lines[i]) // 2] + bytes(f['bytes']) + lines[i][len(lines[i]) // 2:]
        return headb + zlib.compress(b'\n'.join(lines))
    return data
