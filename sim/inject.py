"""Scoped exception injector (S8) built on sys.monitoring (PEP 669, Python >= 3.12).

pydoctor promises to contain failures of three operations:

    parse      the parser callee in  epydoc2stan.parse_docstring   (``parsed_doc = parser(doc, errs)``)
    to_stan    the renderer callee in epydoc2stan.safe_to_stan      (``stan = parsed_doc.to_stan(linker)``)
    summary    the three calls inside the try block of ParsedDocstring.get_summary

An *extent* is the dynamic extent of one such call: it opens at the LINE event of
the guarded statement in the guard's code object and closes at the next LINE
event of the same guard frame (the statement after the call, or the except
clause).  While an extent is open every PY_START event (any frame: pydoctor,
docutils, twisted ...) is counted; in injection mode the planned exception is
raised from the callback at the j-th event of the n-th extent of the planned
operation, which makes it surface inside the started frame.  Nested guard
invocations inside an open extent belong to that extent.  Sites outside the
guards (lunr corpus builder, get_toc ...) are never injected: the property does
not list them.
"""
from __future__ import annotations

import inspect
import sys
from typing import Any, Dict, List, Optional, Tuple

TOOL = 3   # sys.monitoring tool id (0-5)


class InjectedFault(RuntimeError):
    pass


EXC_CLASSES = {
    'RuntimeError': InjectedFault,
    'RecursionError': RecursionError,
    'MemoryError': MemoryError,
    'ValueError': ValueError,
    'AssertionError': AssertionError,
    'KeyError': KeyError,
    'AttributeError': AttributeError,
    'TypeError': TypeError,
    'UnicodeError': UnicodeError,
    'IndexError': IndexError,
    'ImportError': ImportError,
    'ModuleNotFoundError': ModuleNotFoundError,
    'OSError': OSError,
    'LookupError': LookupError,
    'NotImplementedError': NotImplementedError,
    'ZeroDivisionError': ZeroDivisionError,
    'StopIteration': StopIteration,
    'EOFError': EOFError,
    'NameError': NameError,
}


def _find_lines(func: Any, needles: List[str]) -> Dict[int, str]:
    src, start = inspect.getsourcelines(func)
    out: Dict[int, str] = {}
    for needle in needles:
        hits = [start + i for i, l in enumerate(src) if needle in l]
        if len(hits) != 1:
            raise RuntimeError(f'guard site {needle!r} found {len(hits)} times in {func.__qualname__}: the injector must be updated')
        out[hits[0]] = needle
    return out


class Injector:
    def __init__(self, plan: Optional[Dict[str, Any]] = None) -> None:
        """plan = {'op': 'parse'|'to_stan'|'summary', 'flavour': str, 'call': n, 'event': j, 'exc': name} or None (record only)"""
        self.plan = plan
        self.records: List[Dict[str, Any]] = []
        self.fired: Optional[Dict[str, Any]] = None
        self._ext: Optional[Dict[str, Any]] = None
        self._counts: Dict[str, int] = {}
        self._busy = False
        self._guards: Dict[Any, Tuple[str, Dict[int, str]]] = {}

    # -- installation
    def install(self) -> None:
        from pydoctor import epydoc2stan
        from pydoctor.epydoc.markup import ParsedDocstring
        mon = sys.monitoring
        self._guards = {
            epydoc2stan.parse_docstring.__code__: ('parse', _find_lines(epydoc2stan.parse_docstring, ['parsed_doc = parser(doc, errs)'])),
            epydoc2stan.safe_to_stan.__code__: ('to_stan', _find_lines(epydoc2stan.safe_to_stan, ['stan = parsed_doc.to_stan(linker)'])),
            ParsedDocstring.get_summary.__code__: ('summary', _find_lines(ParsedDocstring.get_summary,
                                                                          ['_document = self.to_node()', 'visitor = SummaryExtractor(_document)', '_document.walk(visitor)'])),
        }
        mon.use_tool_id(TOOL, 'verif-inject')
        mon.register_callback(TOOL, mon.events.LINE, self._on_line)
        mon.register_callback(TOOL, mon.events.PY_START, self._on_start)
        for code in self._guards:
            mon.set_local_events(TOOL, code, mon.events.LINE)

    def uninstall(self) -> None:
        mon = sys.monitoring
        try:
            mon.set_events(TOOL, 0)
            for code in self._guards:
                mon.set_local_events(TOOL, code, 0)
            mon.register_callback(TOOL, mon.events.LINE, None)
            mon.register_callback(TOOL, mon.events.PY_START, None)
            mon.free_tool_id(TOOL)
        except Exception:
            pass

    # -- callbacks
    def _on_line(self, code: Any, line: int) -> Any:
        if self._busy:
            return None
        self._busy = True
        try:
            g = self._guards.get(code)
            if g is None:
                return None
            frame = sys._getframe(1)
            ext = self._ext
            if ext is not None:
                if ext['frame'] == id(frame) and line != ext['line']:
                    # did the failure reach the guard?  (the next line executed in the guard frame is its except clause)
                    import linecache
                    txt = linecache.getline(code.co_filename, line).strip()
                    ext['surfaced'] = txt.startswith('except')
                    self._close()
                    ext = None
                else:
                    return None       # nested guard invocation: part of the open extent
            op, lines = g
            if line in lines and self._ext is None:
                self._open(op, line, lines[line], frame)
            return None
        finally:
            self._busy = False

    def _open(self, op: str, line: int, stmt: str, frame: Any) -> None:
        info = self._describe(op, frame)
        flavour = info['flavour']
        key = f'{op}:{flavour}'
        n = self._counts.get(key, 0)
        self._counts[key] = n + 1
        self._ext = {'frame': id(frame), 'line': line, 'op': op, 'flavour': flavour, 'call': n, 'events': 0,
                     'target': info['target'], 'source': info.get('source'), 'section': info.get('section'), 'stmt': stmt,
                     'report': info.get('report', True)}
        sys.monitoring.set_events(TOOL, sys.monitoring.events.PY_START)

    def _close(self) -> None:
        ext = self._ext
        self._ext = None
        sys.monitoring.set_events(TOOL, 0)
        if ext is not None:
            rec = {k: ext[k] for k in ('op', 'flavour', 'call', 'events', 'target', 'source', 'section', 'stmt', 'report')}
            rec['surfaced'] = ext.get('surfaced', False)
            self.records.append(rec)
            if self.fired is not None and self.fired.get('surfaced') is None and self.fired['call'] == ext['call'] \
                    and self.fired['op'] == ext['op'] and self.fired['flavour'] == ext['flavour']:
                self.fired['surfaced'] = rec['surfaced']

    def _on_start(self, code: Any, offset: int) -> Any:
        ext = self._ext
        if ext is None or self._busy:
            return None
        ext['events'] += 1
        p = self.plan
        if p is not None and self.fired is None and p['op'] == ext['op'] and p['flavour'] == ext['flavour'] \
                and p['call'] == ext['call'] and p['event'] == ext['events'] and p.get('stmt', ext['stmt']) == ext['stmt']:
            self.fired = {'op': ext['op'], 'flavour': ext['flavour'], 'call': ext['call'], 'event': ext['events'],
                          'target': ext['target'], 'source': ext['source'], 'section': ext['section'], 'stmt': ext['stmt'],
                          'report': ext['report'],
                          'in_code': f'{code.co_filename.rsplit("/site-packages/", 1)[-1]}:{code.co_name}',
                          'in_pydoctor': '/pydoctor/' in code.co_filename}
            if p.get('bare'):
                # real internal failures often carry no message at all (bare assert, KeyError(), MemoryError())
                raise EXC_CLASSES[p['exc']]()
            raise EXC_CLASSES[p['exc']](f'injected fault ({p["exc"]})')
        return None

    @staticmethod
    def _describe(op: str, frame: Any) -> Dict[str, Any]:
        loc = frame.f_locals

        def fn(o: Any) -> Optional[str]:
            try:
                return o.fullName()
            except Exception:
                return None
        if op == 'parse':
            return {'flavour': str(loc.get('section')), 'target': fn(loc.get('obj')), 'source': fn(loc.get('source')),
                    'section': loc.get('section')}
        if op == 'to_stan':
            fb = loc.get('fallback')
            tgt = loc.get('ctx')
            back = frame.f_back
            # format_docstring(obj) renders an inherited docstring in the context of its source: the page is obj's
            if back is not None and back.f_code.co_name in ('format_docstring', 'format_summary') and back.f_locals.get('obj') is not None:
                tgt = back.f_locals['obj']
            return {'flavour': f'{getattr(fb, "__name__", "?")}', 'target': fn(tgt), 'source': fn(loc.get('ctx')),
                    'section': loc.get('section'), 'report': bool(loc.get('report'))}
        back = frame.f_back
        tgt = None
        if back is not None and back.f_code.co_name == '_get_parsed_summary':
            tgt = fn(back.f_locals.get('obj'))
        return {'flavour': 'summary', 'target': tgt, 'source': tgt, 'section': 'summary'}
