"""Abstract projects ("worlds"): generator, renderer, ground truth.

A world is plain JSON-able data::

    world = {
      'modules': { 'p': Module, 'p.a': Module, ... },     # every package before its children
      'truth':   { ... },                                 # ground truth recorded while generating
      'profile': { knob: value },
    }
    Module = { 'pkg': bool, 'body': [Stmt], 'all': [str] | None, 'docformat': str | None, 'mid': int }
    Stmt   = {'k':'class', 'id', 'name', 'bases':[Ref], 'body':[Stmt], 'deco':[str], 'fields':[...]}
           | {'k':'func',  'id', 'name', 'deco': None|'classmethod'|'staticmethod'|'property', 'ann':{p:Ref}, 'ret':Ref|None, 'selfattrs':[Var]}
           | {'k':'var',   'id', 'name', 'ann': Ref|None}
           | {'k':'import','mod': 'p.a', 'as': None|str}
           | {'k':'from',  'mod': absolute target, 'level': int, 'rel': str, 'names': [[orig, as|None]] | '*', 'guard': None|'tc'|'try'}
           | {'k':'alias', 'name', 'target': Ref}
           | {'k':'docassign', 'target': Ref, 'text'}
           | {'k':'ifelse', 'then':[Stmt], 'else':[Stmt]}
           | {'k':'tryexcept', 'then':[Stmt], 'else':[Stmt]}
           | {'k':'implements', 'form':'decorator'|'classImplements', 'cls': Ref, 'ifaces':[Ref]}   # zope
           | {'k':'raw', 'text': str}
    Ref    = {'expr': 'al.C7', 'id': 7 | None, 'route': 'local'|'from'|'from-as'|'import-attr'|'import-as-attr'|'frompkg-attr'|'star'|'alias'|..., 'via': modname | None}

Every definition has a globally unique integer id and carries the marker
``M<id>M`` in its docstring (variables also as their value), so an object can be
recognised whatever its qualified name currently is.

The ground truth is recorded while *choosing* each expression (the generator
picks a visible route to a definition, never a random string).  It is validated
independently by importing the materialised world with CPython
(``sim.pytruth``), which is the semantics C04/C05/C07 are stated against.
"""
from __future__ import annotations

import json
import re
from typing import Any, Dict, Iterable, Iterator, List, Optional, Tuple

from .prng import Rng

MARK_RE = re.compile(r'M(\d+)M')

DEFAULT_PROFILE: Dict[str, Any] = {
    'roots': (1, 2),          # min, max number of roots
    'children': (2, 5),       # children of the main package
    'subpkg': 0.35,           # probability of one sub-package
    'defs': (1, 4),           # definitions per module
    'imports': (0, 3),        # import statements per module
    'reexport': 0.5,          # probability that a module with imports re-exports some of them through __all__
    'multi_reexport': False,  # allow several re-exporters for one object
    'own_all': 0.3,           # probability that a module without re-exports declares __all__ for own names
    'cyclic': False,          # add back-edge imports
    'star': 0.2,              # weight of star imports
    'relative': 0.35,         # probability that an intra-root import is written relatively
    'dup': 0.0,               # probability per module of a duplicate definition (if/else, try/except, rebinding)
    'onto_existing': 0.0,     # probability that a re-export collides with a local definition of the same name
    'nested': 0.2,            # probability per class of a nested class
    'zope': 0.0,              # probability that the world has zope interfaces
    'docassign': 0.0,         # probability per module of a cross-module __doc__ assignment
    'method_pool': False,     # draw method names from a small pool so that overriding happens (C05)
    'inconsistent': 0.0,      # probability that a class with >=2 bases gets a deliberately inconsistent order
    'subscript': 0.1,         # probability that a base is written B[int]
    'alias': 0.2,             # probability per module of `M = N` aliases
    'class_imports': 0.1,     # probability per class of an import inside the class body
    'fields': 0.0,            # probability per class of @ivar/@cvar fields in its docstring
    'private_mods': 0.4,      # probability that a defining module has a _private name
    'late_import_use': True,  # uses always come after the import in source order
    'consumer_roots': False,  # put consumers in other roots (needed by C07 to schedule them before the re-exporter)
    'method_alias_reexport': 0.0,  # `meth = K.meth` at module level and re-exported (finding C02-4)
    'module_reexport': 0.0,   # `from . import sub` with 'sub' in __all__
    'tc_guard': 0.1,          # probability an import sits under `if TYPE_CHECKING:`
    'rebind_same': 0.0,       # probability that an import statement may bind again a name that already denotes the same object
    'shadow_import': 0.0,     # probability per module of `try: from pkg._speedups import X / except ImportError: pass` after `class X`
    'max_bases': 2,           # bases per class
    'root_clash': 0.0,        # probability that a sub-module (and sometimes a class) is named like the single root package
    'alias_pool': False,      # module aliases are drawn from a small pool so that different scopes bind the same alias name differently
    'imports_last': False,    # every module defines first and imports at the bottom (so a module that is read while half built
                              # - import cycles - has already defined everything it defines itself)
    'back_edge_bottom': False,  # cyclic worlds: the imports that close a cycle sit at the bottom of the module, after every definition
    'pkg_docformat': 0.0,     # probability that the root package sets __docformat__ = 'restructuredtext' (fields below it are then reST)
    'nested_refs': 0.0,       # probability that references to nested classes (`Outer.Inner`, `alias.Outer.Inner`) are offered
    'hide_overrides': 0.0,    # probability per class with an overriding member of a privacy rule hiding that member (or the class)
    'docassign_modules': False,  # __doc__ assignments may also target a module through its alias
    'submodule_clash': 0.0,   # probability that a package __init__ defines a function named like a sub-module nothing imports
    'private_defs': 0.0,      # probability that a module-level definition has a _private name
    'module_deco': 0.0,       # probability per module-level function of a @staticmethod / @classmethod decorator
    'case_twins': 0.0,        # probability per class of members whose names differ only in case
    'dup_mixed': False,       # duplicates inside a class body may change kind (`x = None` then `def x(self)` / `@property`)
    'prefer_local': 0.0,      # probability per import statement of importing only names the target module defines itself
    'inner_defs': 0.0,        # probability per function of local definitions in its body (plain or async function): never documented
    'var_ann': 0.0,           # probability that a variable is annotated with a class visible in its scope
    'attr_pool': 0.0,         # probability per class that its attributes come from a small name pool, as class variable,
                              # annotated declaration or instance variable set in __init__ (so that overriding chains arise)
    'max_modules': 9,
}

MODNAMES = ['a', 'b', 'c', 'd', 'e', 'm', 'n', 'x', 'y', 'z', 'util', 'base', 'api', 'core']
PRIVNAMES = ['_impl', '_core', '_a', '_z', '_m']
PKGNAMES = ['p', 'q', 'r']
SUBPKGNAMES = ['sub', 'k', '_int', 'w']
TOPMODS = ['t', 'u', 'h', 'zz', 'aa']


def profile(**over: Any) -> Dict[str, Any]:
    p = dict(DEFAULT_PROFILE)
    for k, v in over.items():
        if k not in p:
            raise KeyError(k)
        p[k] = v
    return p


# --------------------------------------------------------------------------
# generator

class _Gen:
    def __init__(self, rng: Rng, prof: Dict[str, Any]) -> None:
        self.rng = rng
        self.p = prof
        self.next_id = 1
        self.modules: Dict[str, Dict[str, Any]] = {}
        self.defs: Dict[int, Dict[str, Any]] = {}
        # namespace truth: modname -> name -> binding  (['d', id] | ['m', modname])
        self.ns: Dict[str, Dict[str, List[Any]]] = {}
        # class-scope namespaces: class id -> name -> binding
        self.cns: Dict[int, Dict[str, List[Any]]] = {}
        self.edges: List[Tuple[str, str]] = []
        self.reexporters: Dict[int, List[str]] = {}
        self.loc: Dict[int, List[str]] = {}   # id -> [module, name] where it must be documented
        self.alias_n = 0
        self.refs: List[Dict[str, Any]] = []

    # -- helpers
    def fid(self) -> int:
        i = self.next_id
        self.next_id += 1
        return i

    def parent_of(self, modname: str) -> Optional[str]:
        return modname.rpartition('.')[0] or None

    def root_of(self, modname: str) -> str:
        return modname.split('.')[0]

    def is_pkg(self, modname: str) -> bool:
        return self.modules[modname]['pkg']

    # -- layout
    def layout(self) -> None:
        rng = self.rng.sub('layout')
        p = self.p
        nroots = rng.randint(*p['roots'])
        pk = rng.choice(PKGNAMES)
        names = rng.shuffled(MODNAMES)
        privs = rng.shuffled(PRIVNAMES)
        nchild = rng.randint(*p['children'])
        self._addmod(pk, True)
        children: List[str] = []
        for i in range(nchild):
            if privs and rng.chance(p['private_mods'] / max(1, nchild) * 2):
                nm = privs.pop()
            else:
                nm = names.pop()
            children.append(nm)
        if nroots == 1 and rng.chance(p.get('root_clash', 0)):
            children.append(pk)          # a sub-module named like the (only) root package
            self.exotic_layout = True
        for nm in sorted(set(children)):
            self._addmod(f'{pk}.{nm}', False)
        if rng.chance(p['subpkg']) and len(self.modules) < p['max_modules'] - 1:
            sp = rng.choice(SUBPKGNAMES)
            self._addmod(f'{pk}.{sp}', True)
            for nm in sorted(rng.sample(names, rng.randint(1, 2))):
                if len(self.modules) < p['max_modules']:
                    names.remove(nm)
                    self._addmod(f'{pk}.{sp}.{nm}', False)
        tops = rng.shuffled(TOPMODS)
        pkgs = [x for x in PKGNAMES if x != pk]
        for _ in range(nroots - 1):
            if len(self.modules) >= p['max_modules']:
                break
            if rng.chance(0.5) and pkgs:
                q = pkgs.pop()
                self._addmod(q, True)
                for nm in sorted(rng.sample(names, rng.randint(1, 2))):
                    if len(self.modules) < p['max_modules']:
                        names.remove(nm)
                        self._addmod(f'{q}.{nm}', False)
            else:
                self._addmod(tops.pop(), False)
        # canonical (alphabetical, depth-first) order, the order pydoctor itself would use
        self.modules = {k: self.modules[k] for k in canonical_order(self.modules)}

    def _addmod(self, fullname: str, pkg: bool) -> None:
        self.modules[fullname] = {'pkg': pkg, 'body': [], 'all': None, 'docformat': None, 'mid': self.fid()}
        self.ns[fullname] = {}

    def _private_name(self, ident: int) -> bool:
        # module-level names with a leading underscore: not exported by `import *` unless __all__ lists them
        pr = self.p.get('private_defs', 0)
        return bool(pr) and self.rng.sub('private-def').sub(ident).chance(pr)

    # -- definitions
    def mk_class(self, rng: Rng, mod: str, scope_ns: Dict[str, List[Any]], outer: Optional[int] = None,
                 depth: int = 0, body_so_far: Optional[List[Any]] = None) -> Dict[str, Any]:
        p = self.p
        cid = self.fid()
        name = f'C{cid}'
        if outer is None and self._private_name(cid):
            name = '_' + name
        bases: List[Dict[str, Any]] = []
        cands = self.class_refs(rng, mod, scope_ns, outer)
        if cands and rng.chance(0.7):
            k = 1 if rng.chance(0.7) else 2
            if p.get('max_bases', 2) >= 3 and rng.chance(0.5):
                k = 3
            chosen = []
            seen_ids = set()
            for r in rng.shuffled(cands):
                if r['id'] in seen_ids:
                    continue
                seen_ids.add(r['id'])
                chosen.append(r)
                if len(chosen) == k:
                    break
            chosen = self.order_bases(rng, chosen)
            for r in chosen:
                r = dict(r)
                if rng.chance(p['subscript']):
                    r['sub'] = True
                bases.append(r)
        st: Dict[str, Any] = {'k': 'class', 'id': cid, 'name': name, 'bases': bases, 'body': [], 'deco': [], 'fields': []}
        self.defs[cid] = {'kind': 'class', 'name': name, 'module': mod, 'outer': outer,
                          'bases': [b['id'] for b in bases], 'members': {}}
        self.cns[cid] = {}
        # members
        nmeth = rng.randint(0, 2)
        for _ in range(nmeth):
            m = self.mk_func(rng, mod, outer=cid)
            st['body'].append(m)
        if rng.chance(0.4):
            st['body'].append(self.mk_var(rng, mod, outer=cid))
        if p.get('case_twins', 0) and rng.sub('twins?').chance(p['case_twins']):
            # a member whose name differs from a sibling's only in case (get / GET): the two tie under case-insensitive sort keys
            tr = rng.sub('twins')
            for ms in list(st['body']):
                if ms['k'] in ('func', 'var') and ms['name'].upper() != ms['name'] and ms['name'].upper() not in self.defs[cid]['members']:
                    tw = self.mk_func(tr, mod, outer=cid) if ms['k'] == 'func' else self.mk_var(tr, mod, outer=cid)
                    self.defs[cid]['members'].pop(tw['name'], None)
                    self.cns[cid].pop(tw['name'], None)
                    tw['name'] = ms['name'].upper()
                    self.defs[tw['id']]['name'] = tw['name']
                    if ms['k'] == 'func':
                        tw['deco'] = ms.get('deco')
                        self.defs[tw['id']]['kind'] = self.defs[ms['id']]['kind']
                    self.defs[cid]['members'][tw['name']] = tw['id']
                    self.cns[cid][tw['name']] = ['d', tw['id']]
                    st['body'].append(tw)
                    if tr.chance(0.6):
                        break
        if p.get('attr_pool', 0) and rng.chance(p['attr_pool']):
            an = rng.choice(self.ATTR_POOL)
            form = rng.weighted([('ivar', 2), ('cvar', 2), ('decl', 2)])
            # prefer overriding an attribute an ancestor already has: chains of overrides are where the
            # instance-variable / class-variable kind has to be propagated
            inherited = sorted({n for a in self.ancestors(cid) for n in self.defs[a].get('members', {}) if n in self.ATTR_POOL})
            if inherited and rng.chance(0.8):
                an = rng.choice(inherited)
                form = rng.weighted([('ivar', 1), ('cvar', 3), ('decl', 3)])
            elif not inherited:
                form = rng.weighted([('ivar', 4), ('cvar', 1), ('decl', 1)])
            vid = self.fid()
            if form == 'ivar':
                fid_ = self.fid()
                init = {'k': 'func', 'id': fid_, 'name': '__init__', 'deco': None, 'ann': {}, 'ret': None, 'nodoc': True,
                        'selfattrs': [{'name': an, 'id': vid}]}
                self.defs[fid_] = {'kind': 'method', 'name': '__init__', 'module': mod, 'outer': cid, 'nodoc': True}
                self.defs[cid]['members']['__init__'] = fid_
                st['body'].append(init)
                self.defs[vid] = {'kind': 'ivar', 'name': an, 'module': mod, 'outer': cid}
            else:
                vst = {'k': 'var', 'id': vid, 'name': an, 'ann': None, 'decl_only': form == 'decl'}
                st['body'].append(vst)
                self.defs[vid] = {'kind': 'cvar', 'name': an, 'module': mod, 'outer': cid}
            self.defs[cid]['members'][an] = vid
            if form == 'cvar':
                self.cns[cid][an] = ['d', vid]     # 'decl' (annotation only) and 'ivar' (set in __init__) bind nothing in the class body
        if p.get('alias_pool') and rng.chance(0.35):
            # an alias in the class body; its name may also be bound (differently) at module level
            cands_a = [(n, b) for n, b in scope_ns.items() if b[0] == 'd' and self.defs[b[1]]['kind'] == 'class'
                       and n not in self.cns[cid]]
            if cands_a:
                n, b = rng.choice(sorted(cands_a))
                an = rng.choice(['ta', 'tb'] + self.ALIAS_POOL)
                if an not in self.cns[cid]:
                    self.cns[cid][an] = list(b)
                    st['body'].append({'k': 'alias', 'name': an, 'target': {'expr': n, 'id': b[1]}})
        if depth == 0 and rng.chance(p['nested']):
            # optionally bind a module alias inside the class body first; the nested class may then use it for its base
            if rng.chance(max(p['class_imports'], 0.0) * 2) and self.done:
                cands_t = [t for t in self.done if t != mod and not any(pf not in self.done for pf in self.exec_prefixes(mod, t))
                           and any(b[0] == 'd' and self.defs[b[1]]['kind'] == 'class' and self._routes.get((t, n)) == 'local'
                                   for n, b in self.ns[t].items())]
                if cands_t:
                    t = rng.choice(cands_t)
                    self.alias_n += 1
                    al = f'cal{self.alias_n}'
                    if p.get('alias_pool'):
                        al = rng.choice(self.ALIAS_POOL)
                        if al in self.cns[cid]:
                            al = f'cal{self.alias_n}'
                    self.cns[cid][al] = ['m', t]
                    self.cns_vias.setdefault(cid, {})[al] = t
                    st['body'].append({'k': 'import', 'mod': t, 'as': al, 'guard': None})
                    self.edges.append((mod, t))
                    for pf in self.exec_prefixes(mod, t):
                        self.edges.append((mod, pf))
            inner = self.mk_class(rng, mod, scope_ns, outer=cid, depth=1)
            st['body'].append(inner)
        if rng.chance(p['fields']):
            fid_ = self.fid()
            fname = f'fv{fid_}'
            st['fields'].append({'tag': rng.choice(['ivar', 'cvar']), 'name': fname, 'id': fid_})
            self.defs[fid_] = {'kind': 'field', 'name': fname, 'module': mod, 'outer': cid}
        rng.shuffle(st['body'])
        # bindings made by imports in the class body come first (a nested class may use them)
        st['body'].sort(key=lambda x: 0 if x['k'] in ('import', 'from', 'alias') else 1)
        return st

    def order_bases(self, rng: Rng, chosen: List[Dict[str, Any]]) -> List[Dict[str, Any]]:
        """Put bases in an order that is C3-consistent (subclass before its ancestor),
        or deliberately inconsistent with probability p['inconsistent']."""
        if len(chosen) < 2:
            return chosen
        if len(chosen) > 2:
            import itertools
            perms = rng.shuffled(list(itertools.permutations(chosen)))
            good = [list(pm) for pm in perms if self._lin_ok([r['id'] for r in pm])]
            bad = [list(pm) for pm in perms if not self._lin_ok([r['id'] for r in pm])]
            if rng.chance(self.p['inconsistent']) and bad:
                return bad[0]
            if good:
                return good[0]
            return self.order_bases(rng, chosen[:2])
        a, b = chosen[0], chosen[1]
        ok_ab = self._lin_ok([a['id'], b['id']])
        ok_ba = self._lin_ok([b['id'], a['id']])
        want_bad = rng.chance(self.p['inconsistent'])
        if want_bad:
            if not ok_ab:
                return [a, b]
            if not ok_ba:
                return [b, a]
            return [a, b]
        if ok_ab:
            return [a, b]
        if ok_ba:
            return [b, a]
        return [a]

    def _lin(self, cid: int) -> Optional[List[int]]:
        from .pytruth import c3_merge
        bases = [x for x in self.defs[cid].get('bases', []) if x is not None]
        lins = []
        for x in bases:
            lx = self._lin(x)
            if lx is None:
                return None
            lins.append(lx)
        m = c3_merge(lins + [list(bases)])
        return None if m is None else [cid] + m

    def _lin_ok(self, bases: List[int]) -> bool:
        from .pytruth import c3_merge
        lins = []
        for x in bases:
            lx = self._lin(x)
            if lx is None:
                return False
            lins.append(lx)
        return c3_merge(lins + [list(bases)]) is not None

    def ancestors(self, cid: Optional[int]) -> set:
        out: set = set()
        if cid is None:
            return out
        stack = list(self.defs[cid].get('bases', []))
        while stack:
            x = stack.pop()
            if x is None or x in out:
                continue
            out.add(x)
            stack.extend(self.defs[x].get('bases', []))
        return out

    METHOD_POOL = ['run', 'stop', 'size', 'name_of']
    ATTR_POOL = ['xa', 'xa', 'xa', 'yb']
    ALIAS_POOL = ['ma', 'mb', 'mc']

    def mk_func(self, rng: Rng, mod: str, outer: Optional[int] = None) -> Dict[str, Any]:
        fid_ = self.fid()
        if outer is not None and self.p['method_pool']:
            pool = [n for n in self.METHOD_POOL if n not in self.defs[outer]['members']]
            name = rng.choice(pool) if pool else f'f{fid_}'
        else:
            name = f'f{fid_}'
            if outer is None and self._private_name(fid_):
                name = '_' + name
        deco = None
        if outer is not None:
            deco = rng.weighted([(None, 6), ('classmethod', 1), ('staticmethod', 1), ('property', 1)])
        elif self.p.get('module_deco', 0) and rng.sub('module-deco').chance(self.p['module_deco']):
            # helpers written as module-level functions wrapped in staticmethod / classmethod (to be injected into classes)
            deco = rng.sub('module-deco-kind').choice(['staticmethod', 'classmethod'])
        nodoc = bool(self.p['method_pool'] and outer is not None and rng.chance(0.4))
        # an explicitly empty docstring: Python's lookup stops there (``__doc__ == ''``), the member counts as undocumented
        emptydoc = bool(self.p['method_pool'] and outer is not None and not nodoc and rng.chance(0.2))
        st = {'k': 'func', 'id': fid_, 'name': name, 'deco': deco, 'ann': {}, 'ret': None, 'nodoc': nodoc, 'emptydoc': emptydoc}
        if self.p.get('inner_defs', 0) and rng.chance(self.p['inner_defs']):
            st['inner'] = rng.choice(['def', 'class', 'both', 'nested-block'])
            st['is_async'] = rng.chance(0.5) and deco in (None, 'staticmethod', 'classmethod')
        kind = 'func' if outer is None else {None: 'method', 'classmethod': 'classmethod',
                                             'staticmethod': 'staticmethod', 'property': 'property'}[deco]
        self.defs[fid_] = {'kind': kind, 'name': name, 'module': mod, 'outer': outer, 'nodoc': nodoc or emptydoc, 'emptydoc': emptydoc}
        if outer is not None:
            self.defs[outer]['members'][name] = fid_
            self.cns[outer][name] = ['d', fid_]
        return st

    def mk_var(self, rng: Rng, mod: str, outer: Optional[int] = None,
               scope_ns: Optional[Dict[str, List[Any]]] = None) -> Dict[str, Any]:
        vid = self.fid()
        name = f'v{vid}'
        if outer is None and self._private_name(vid):
            name = '_' + name
        st = {'k': 'var', 'id': vid, 'name': name, 'ann': None}
        if self.p.get('var_ann', 0) and rng.chance(self.p['var_ann']):
            cands = self.class_refs(rng, mod, scope_ns if scope_ns is not None else self.ns[mod], outer)
            if cands:
                st['ann'] = dict(rng.choice(cands))
        self.defs[vid] = {'kind': 'var' if outer is None else 'cvar', 'name': name, 'module': mod, 'outer': outer}
        if outer is not None:
            self.defs[outer]['members'][name] = vid
            self.cns[outer][name] = ['d', vid]
        return st

    # -- references visible in a scope
    def class_refs(self, rng: Rng, mod: str, scope_ns: Dict[str, List[Any]], outer: Optional[int]) -> List[Dict[str, Any]]:
        """Every expression that currently denotes a class in module scope ``mod``."""
        out: List[Dict[str, Any]] = []
        shadowed = set(self.cns[outer]) if outer is not None else set()
        for name, b in scope_ns.items():
            if name in shadowed:
                continue      # the class body binds this name itself
            route = self._routes.get((mod, name), 'local')
            via = self._vias.get((mod, name))
            if b[0] == 'd':
                d = self.defs[b[1]]
                if d['kind'] == 'class':
                    out.append({'expr': name, 'id': b[1], 'route': route, 'via': via})
            elif b[0] == 'm':
                # dotted access through a module binding
                if route == 'import':
                    starts = [(t, t) for t in self._plain_imports.get(mod, []) if t.split('.')[0] == name]
                else:
                    starts = [(name, b[1])]
                for sexpr, smod in starts:
                    for expr, bid, steps in self._module_attr_paths(sexpr, smod, depth=2):
                        if self.defs[bid]['kind'] == 'class':
                            out.append({'expr': expr, 'id': bid, 'route': route + '-attr', 'via': steps})
        if outer is not None:
            for name, b in self.cns[outer].items():
                if b[0] == 'd' and self.defs[b[1]]['kind'] == 'class':
                    out.append({'expr': name, 'id': b[1], 'route': 'classscope', 'via': None})
                elif b[0] == 'm' and b[1] in self.done:
                    for n2, b2 in self.ns[b[1]].items():
                        if b2[0] == 'd' and self.defs[b2[1]]['kind'] == 'class' and self._routes.get((b[1], n2)) == 'local':
                            out.append({'expr': f'{name}.{n2}', 'id': b2[1], 'route': 'classscope-import-as-attr', 'via': b[1]})
        if self.p.get('nested_refs', 0):
            # paths that continue below a class: `Outer.Inner`, `alias.Outer.Inner` (the route is that of the outer class)
            more = []
            for r in out:
                if r['route'] == 'classscope':
                    continue
                for i2, d2 in self.defs.items():
                    n2 = d2['name']
                    if d2['kind'] == 'class' and d2.get('outer') == r['id']:
                        more.append({'expr': f'{r["expr"]}.{n2}', 'id': i2, 'route': r['route'], 'via': r['via'], 'nested': True})
            if more and rng.sub('nested-refs').chance(self.p['nested_refs']):
                # offered often enough to be picked: once per outer reference
                out = out + more + more
        return out

    def _module_attr_paths(self, expr: str, modname: str, depth: int) -> Iterator[Tuple[str, int, str]]:
        """Attribute paths from a module binding to definitions, only through
        namespaces that are *complete* at this point (modules earlier in the
        import order), so that Python would agree."""
        if modname not in self.done:
            return
        for name, b in self.ns[modname].items():
            if b[0] == 'd':
                yield f'{expr}.{name}', b[1], modname
            elif b[0] == 'm' and depth > 1:
                yield from self._module_attr_paths(f'{expr}.{name}', b[1], depth - 1)

    # -- imports
    def rel_form(self, rng: Rng, mod: str, target: str) -> Tuple[int, str]:
        """Return (level, rel) writing ``target`` relative to ``mod`` if possible, else (0, target)."""
        if self.root_of(mod) != self.root_of(target) or not self.rng_rel.chance(self.p['relative']):
            return 0, target
        base = mod if self.is_pkg(mod) else self.parent_of(mod)
        if base is None:
            return 0, target
        level = 1
        while base is not None:
            if target == base:
                return level, ''
            if target.startswith(base + '.'):
                return level, target[len(base) + 1:]
            base = self.parent_of(base)
            level += 1
        return 0, target

    def gen_import(self, rng: Rng, mod: str, target: str, ns: Dict[str, List[Any]],
                   back_edge: bool = False) -> Optional[Dict[str, Any]]:
        """Create one import statement in ``mod`` referring to ``target``; update ``ns``."""
        p = self.p
        tns = self.ns[target]
        # Importing a.b.c executes a, a.b and a.b.c.  Every prefix that is not an
        # ancestor of the importer itself is therefore a dependency too.
        prefixes = self.exec_prefixes(mod, target)
        if not back_edge and any(pf not in self.done for pf in prefixes):
            return None
        forms: List[Tuple[str, float]] = []
        importable = [n for n in tns if n not in ns and not self._clash(mod, n)]
        if p.get('prefer_local', 0) and rng.sub('prefer-local').chance(p['prefer_local']):
            # import what the target module defines itself rather than what it imported (no chains)
            own_names = [n for n in importable if self._routes.get((target, n)) == 'local']
            if own_names:
                importable = own_names
        if p.get('rebind_same', 0) and rng.sub('rebind').chance(p['rebind_same']):
            # importing a name a second time (it already denotes the same object here) is harmless in Python
            importable += [n for n in tns if n in ns and ns[n] == tns[n] and self._routes.get((mod, n)) in ('from', 'star')]
        if importable:
            forms.append(('from', 5))
        forms.append(('import', 2))
        par = self.parent_of(target)
        tail = target.rpartition('.')[2]
        if par is not None and (par in self.done or back_edge) and tail not in self.ns.get(par, {}) and tail not in ns:
            forms.append(('frompkg', 2))
        if p['star'] > 0:
            exported = self.exported(target)
            if exported and all(n not in ns or (p.get('rebind_same', 0) and ns[n] == tns[n]
                                                and self._routes.get((mod, n)) in ('from', 'star')) for n in exported):
                forms.append(('star', 10 * p['star']))
        form = rng.weighted(forms)
        guard = None
        if rng.chance(p['tc_guard']) and form != 'star':
            guard = 'tc'
        if form == 'from':
            k = 1 if rng.chance(0.6) else 2
            picked = rng.sample(importable, k)
            names = []
            level, rel = self.rel_form(rng, mod, target)
            for n in picked:
                asn = None
                if rng.chance(0.25):
                    self.alias_n += 1
                    asn = f'R{self.alias_n}_{n}'
                bound = asn or n
                ns[bound] = list(tns[n])
                self._routes[(mod, bound)] = 'from-as' if asn else 'from'
                self._vias[(mod, bound)] = target
                self._origin[(mod, bound)] = (target, n)
                self._origins.setdefault((mod, bound), []).append((target, n))
                names.append([n, asn])
            st = {'k': 'from', 'mod': target, 'level': level, 'rel': rel, 'names': names, 'guard': guard}
        elif form == 'import':
            asn = None
            if rng.chance(0.5):
                self.alias_n += 1
                asn = f'al{self.alias_n}'
                if p.get('alias_pool'):
                    asn = rng.choice(self.ALIAS_POOL)
                if asn in ns:
                    return None
                ns[asn] = ['m', target]
                self._routes[(mod, asn)] = 'import-as'
                self._vias[(mod, asn)] = target
            else:
                root = self.root_of(target)
                if root in ns and (ns[root] != ['m', root] or self._routes.get((mod, root)) != 'import'):
                    # the root name is already bound by another kind of statement: binding it again through a
                    # different route would give one name two recorded origins
                    return None
                # `import a.b.c` is used as `a.b.c.X`: every prefix must be fully
                # initialised when the attribute access runs
                tparts = target.split('.')
                if not back_edge and any('.'.join(tparts[:i]) not in self.done for i in range(1, len(tparts))):
                    return None
                ns[root] = ['m', root]
                self._routes[(mod, root)] = 'import'
                self._vias[(mod, root)] = target
                self._plain_imports.setdefault(mod, []).append(target)
            st = {'k': 'import', 'mod': target, 'as': asn, 'guard': guard}
        elif form == 'frompkg':
            assert par is not None
            asn = None
            if rng.chance(0.3):
                self.alias_n += 1
                asn = f'ma{self.alias_n}'
            bound = asn or tail
            if bound in ns:
                return None
            ns[bound] = ['m', target]
            self._routes[(mod, bound)] = 'frompkg'
            self._vias[(mod, bound)] = target
            level, rel = self.rel_form(rng, mod, par)
            st = {'k': 'from', 'mod': par, 'level': level, 'rel': rel, 'names': [[tail, asn]], 'guard': guard,
                  'submodule': target}
            self.edges.append((mod, par))
        else:  # star
            level, rel = self.rel_form(rng, mod, target)
            for n in self.exported(target):
                ns[n] = list(tns[n])
                self._routes[(mod, n)] = 'star'
                self._vias[(mod, n)] = target
                self._origin[(mod, n)] = (target, n)
                self._origins.setdefault((mod, n), []).append((target, n))
            st = {'k': 'from', 'mod': target, 'level': level, 'rel': rel, 'names': '*', 'guard': None}
            self._star_importers.setdefault(target, []).append(mod)
        self.edges.append((mod, target))
        for pf in prefixes:
            self.edges.append((mod, pf))
        return st

    def exec_prefixes(self, mod: str, target: str) -> List[str]:
        parts = target.split('.')
        out = []
        for i in range(1, len(parts)):
            pf = '.'.join(parts[:i])
            if mod == pf or mod.startswith(pf + '.'):
                continue
            out.append(pf)
        return out

    def _clash(self, mod: str, name: str) -> bool:
        """Would binding ``name`` in ``mod`` shadow a submodule of ``mod``?"""
        return self.is_pkg(mod) and f'{mod}.{name}' in self.modules

    def exported(self, target: str) -> List[str]:
        m = self.modules[target]
        if m['all'] is not None:
            return [n for n in m['all'] if n in self.ns[target]]
        return [n for n in self.ns[target] if not n.startswith('_')]

    # -- module bodies
    def fill_module(self, mod: str, earlier: List[str]) -> None:
        rng = self.rng.sub('mod').sub(mod)
        p = self.p
        m = self.modules[mod]
        ns = self.ns[mod]
        body: List[Dict[str, Any]] = m['body']
        ndefs = rng.randint(*p['defs'])
        nimp = rng.randint(*p['imports']) if earlier else 0
        # prefer targets from the same root
        same = [t for t in earlier if self.root_of(t) == self.root_of(mod)]
        plan: List[str] = ['def'] * ndefs + ['imp'] * nimp
        rng.shuffle(plan)
        # imports gravitate to the top (like real code) but can be anywhere
        if p.get('imports_last'):
            plan.sort(key=lambda x: 0 if x == 'def' else 1)
        elif rng.chance(0.6):
            plan.sort(key=lambda x: 0 if x == 'imp' else 1)
        for step in plan:
            if step == 'imp':
                pool = same if (same and rng.chance(0.75)) else earlier
                target = rng.choice(pool)
                st = self.gen_import(rng, mod, target, ns)
                if st is not None:
                    body.append(st)
            else:
                kind = rng.weighted([('class', 5), ('func', 2), ('var', 2)])
                if kind == 'class':
                    st = self.mk_class(rng, mod, ns)
                    if rng.chance(p['class_imports']) and earlier:
                        # an import inside the class body
                        t = rng.choice(earlier)
                        cns = self.cns[st['id']]
                        tns = self.ns[t]
                        cand = [n for n in tns if n not in cns and n not in ns]
                        if any(pf not in self.done for pf in self.exec_prefixes(mod, t)):
                            cand = []
                        if cand:
                            n = rng.choice(cand)
                            cns[n] = list(tns[n])
                            self.cns_origin.setdefault(st['id'], {})[n] = [t, n]
                            level, rel = self.rel_form(rng, mod, t)
                            st['body'].insert(0, {'k': 'from', 'mod': t, 'level': level, 'rel': rel,
                                                  'names': [[n, None]], 'guard': None})
                            self.edges.append((mod, t))
                elif kind == 'func':
                    st = self.mk_func(rng, mod)
                else:
                    st = self.mk_var(rng, mod, scope_ns=ns)
                ns[st['name']] = ['d', st['id']]
                self._routes[(mod, st['name'])] = 'local'
                body.append(st)
                self.loc[st['id']] = [mod, st['name']]
        # aliases  M = N
        if rng.chance(p['alias']):
            cands = [n for n, b in ns.items() if b[0] == 'd' and self.defs[b[1]]['kind'] in ('class', 'func')]
            if cands:
                n = rng.choice(cands)
                self.alias_n += 1
                an = f'A{self.alias_n}_{n}'
                if p.get('alias_pool') and rng.chance(0.6):
                    an = rng.choice(['ta', 'tb'])
                    if an in ns:
                        an = f'A{self.alias_n}_{n}'
                ns[an] = list(ns[n])
                self._routes[(mod, an)] = 'alias'
                self._vias[(mod, an)] = self._vias.get((mod, n))
                body.append({'k': 'alias', 'name': an, 'target': {'expr': n, 'id': ns[n][1]}})
        # __all__
        self.decide_all(rng, mod)
        self.history_knobs(rng.sub('hist'), mod)

    def history_knobs(self, rng: Rng, mod: str) -> None:
        """Knobs that create analysis histories outside the subset whose Python
        semantics the ground truth models (duplicates, collisions, zope, __doc__
        assignment ...).  Worlds that use one are flagged in truth['exotic'] and are
        never judged by the reference-model oracles."""
        p = self.p
        m = self.modules[mod]
        ns = self.ns[mod]
        body = m['body']
        # duplicate definition of one name
        if rng.chance(p['dup']):
            cands = [i for i, st in enumerate(body) if st['k'] in ('class', 'func', 'var')]
            if cands:
                i = rng.choice(cands)
                st = body[i]
                if st['k'] == 'class':
                    st2 = self.mk_class(rng, mod, {}, depth=1)
                elif st['k'] == 'func':
                    st2 = self.mk_func(rng, mod)
                else:
                    st2 = self.mk_var(rng, mod)
                old_name = st2['name']
                st2['name'] = st['name']
                self.defs[st2['id']]['name'] = st['name']
                self.defs[st2['id']]['dup_of'] = st['id']
                form = rng.choice(['ifelse', 'tryexcept', 'rebind'])
                if form == 'rebind':
                    body.insert(rng.randint(i + 1, len(body)), st2)
                    ns[st['name']] = ['d', st2['id']]
                    self.loc[st2['id']] = [mod, st['name']]
                else:
                    body[i] = {'k': form, 'then': [st], 'else': [st2]}
                self.exotic.add('dup')
        # optional C speed-ups idiom: the module imports, after defining it, a replacement of the same name
        if rng.chance(p.get('shadow_import', 0)):
            cands = [st for st in body if st['k'] in ('class', 'func')]
            if cands:
                st0 = rng.choice(cands)
                pkg = mod if m['pkg'] else (self.parent_of(mod) or mod)
                ghost = f'{pkg}._speedups'
                if ghost not in self.modules:
                    body.insert(body.index(st0) + 1, {'k': 'tryexcept', 'else': [], 'then': [
                        {'k': 'from', 'mod': ghost, 'level': 0, 'rel': ghost, 'names': [[st0['name'], None]], 'guard': None}]})
                    self.exotic.add('shadow_import')
        # duplicate definition of a member inside a class body (the class may later be moved by a re-export)
        if rng.chance(p['dup'] * 0.6):
            mixed = bool(p.get('dup_mixed'))
            kinds = ('func', 'var') if mixed else ('func',)
            classes = [st for st in body if st['k'] == 'class' and any(ms['k'] in kinds for ms in st['body'])]
            if classes:
                cst = rng.choice(classes)
                ms = rng.choice([x for x in cst['body'] if x['k'] in kinds])
                # the second binding is of the same kind, or (dup_mixed) of the other one: `x = None` ... `def x(self)`
                k2 = ms['k']
                if mixed and rng.sub('k2').chance(0.5):
                    k2 = 'var' if k2 == 'func' else 'func'
                st2 = self.mk_func(rng, mod, outer=cst['id']) if k2 == 'func' else self.mk_var(rng, mod, outer=cst['id'])
                self.defs[cst['id']]['members'].pop(st2['name'], None)
                self.cns[cst['id']].pop(st2['name'], None)
                st2['name'] = ms['name']
                if k2 == 'func':
                    st2['deco'] = ms.get('deco') if ms['k'] == 'func' else rng.sub('deco').choice([None, 'property'])
                self.defs[st2['id']]['name'] = ms['name']
                self.defs[st2['id']]['dup_of'] = ms['id']
                cst['body'].insert(cst['body'].index(ms) + 1, st2)
                self.exotic.add('dup')
                self.exotic.add('dup-in-class')
        # a local definition colliding with a re-exported name
        if m['all'] and rng.chance(p['onto_existing']):
            cands = [n for n in m['all'] if self._routes.get((mod, n)) in ('from', 'star')
                     and ns.get(n, [None])[0] == 'd' and self.defs[ns[n][1]]['kind'] == 'class']
            if cands:
                n = rng.choice(cands)
                st2 = self.mk_class(rng, mod, {}, depth=1)
                st2['name'] = n
                self.defs[st2['id']]['name'] = n
                self.defs[st2['id']]['collides_with'] = ns[n][1]
                pos = rng.choice([0, len(body)])
                body.insert(pos, st2)
                self.exotic.add('onto_existing')
        # cross-module __doc__ assignment
        if rng.chance(p['docassign']):
            targets = []
            for n, b in ns.items():
                r = self._routes.get((mod, n))
                if b[0] == 'd' and r in ('from', 'from-as') and self.defs[b[1]]['kind'] in ('func', 'class'):
                    targets.append((n, b[1], r))
                elif b[0] == 'm' and r in ('import-as', 'frompkg') and b[1] in self.done:
                    if p.get('docassign_modules') and b[1] in self.modules:
                        # the module itself: `import q.b as m; m.__doc__ = ...`
                        targets.append((n, -self.modules[b[1]]['mid'], r + '-module'))
                    for n2, b2 in self.ns[b[1]].items():
                        if b2[0] == 'd' and self.defs[b2[1]]['kind'] in ('func', 'class') and \
                                self._routes.get((b[1], n2)) == 'local':
                            targets.append((f'{n}.{n2}', b2[1], r + '-attr'))
            # one assigner per object: with two, Python's own result depends on the import order
            targets = [t for t in targets if t[1] not in self.docassigned]
            if targets:
                expr, tid, r = rng.choice(targets)
                self.docassigned.add(tid)
                # (a negative id stands for a module, which has no entry in defs)
                text = f'Marker M{abs(tid)}M. Reassigned from {mod}.'
                if tid < 0:
                    # docstring fields on both texts: variables that exist only through an @var field of the module docstring
                    tmod = next(mn for mn, mm in self.modules.items() if mm['mid'] == -tid)
                    self.modules[tmod]['docextra'] = (self.modules[tmod].get('docextra') or '') + \
                        f'\n\n@var gv{-tid}: A variable that only the docstring literal documents.\n'
                    text += f'\n\n@var ga{-tid}: A variable that only the assigned text documents.\n'
                body.append({'k': 'docassign', 'target': {'expr': expr, 'id': tid if tid > 0 else None, 'route': r, 'module_id': -tid if tid < 0 else None},
                             'text': text})
                self.exotic.add('docassign')
        # alias of a method at module level (may then be re-exported by someone else)
        if rng.chance(p['method_alias_reexport']):
            cands = []
            for st in body:
                if st['k'] == 'class':
                    for ms in st['body']:
                        if ms['k'] == 'func' and ms.get('deco') is None:
                            cands.append((st, ms))
            if cands:
                cst, ms = rng.choice(cands)
                self.alias_n += 1
                an = f'ma{self.alias_n}_{ms["name"]}'
                ns[an] = ['d', ms['id']]
                self._routes[(mod, an)] = 'alias'
                body.append({'k': 'alias', 'name': an, 'target': {'expr': f'{cst["name"]}.{ms["name"]}', 'id': ms['id']}})
                self.method_aliases.append((mod, an, ms['id']))
                self.exotic.add('method_alias')
        # re-export of a sub-module
        if m['pkg'] and rng.chance(p['module_reexport']):
            subs = [x for x in self.modules if self.parent_of(x) == mod and x in self.done]
            if subs:
                sub = rng.choice(subs)
                tail = sub.rpartition('.')[2]
                if tail not in ns:
                    ns[tail] = ['m', sub]
                    self._routes[(mod, tail)] = 'frompkg'
                    self._vias[(mod, tail)] = sub
                    body.insert(0, {'k': 'from', 'mod': mod, 'level': 1, 'rel': '', 'names': [[tail, None]],
                                    'guard': None, 'submodule': sub})
                    self.edges.append((mod, sub))
                    m['all'] = (m['all'] or []) + [tail]
                    self.exotic.add('module_reexport')

    def submodule_clash(self, rng: Rng) -> None:
        """A package whose __init__ defines a function named like one of its own sub-modules (``def main()`` next to
        ``pkg/main.py``) - the sub-module is one that nothing imports, so it is still waiting to be analysed when the
        package body is.  Binding truth is not maintained for the clash: the world is marked exotic."""
        imported = {b for (_, b) in self.edges}
        cands = [m for m in self.modules if self.parent_of(m) is not None and not self.modules[m]['pkg'] and m not in imported
                 and m.rpartition('.')[2] not in self.ns[self.parent_of(m)]]
        if not cands:
            return
        sub = rng.choice(sorted(cands))
        par = self.parent_of(sub)
        st = self.mk_func(rng, par)
        st['name'] = sub.rpartition('.')[2]
        self.defs[st['id']]['name'] = st['name']
        self.defs[st['id']]['collides_with'] = sub
        self.modules[par]['body'].append(st)
        self.exotic.add('submodule_clash')

    def zope_knob(self, rng: Rng, order: List[str]) -> None:
        """Interfaces in one module; sub-interfaces and implementers elsewhere, reached
        by every import route."""
        if len(order) < 2:
            return
        zmod = order[0]
        zm = self.modules[zmod]
        zm.setdefault('prelude', []).append('from zope.interface import Interface, implementer, classImplements')
        ifaces = []
        for _ in range(rng.randint(2, 3)):
            cid = self.fid()
            name = f'I{cid}'
            st = {'k': 'class', 'id': cid, 'name': name, 'body': [], 'deco': [], 'fields': [],
                  'bases': [{'expr': 'Interface', 'id': None, 'route': 'ext', 'via': None, 'ext': True}]}
            self.defs[cid] = {'kind': 'class', 'name': name, 'module': zmod, 'outer': None,
                              'bases': [None], 'members': {}, 'iface': True}
            self.cns[cid] = {}
            st['body'].append(self.mk_func(rng, zmod, outer=cid))
            zm['body'].append(st)
            self.ns[zmod][name] = ['d', cid]
            self._routes[(zmod, name)] = 'local'
            self.loc[cid] = [zmod, name]
            ifaces.append(cid)
        self.exotic.add('zope')
        for mod in order[1:]:
            if not rng.chance(0.6):
                continue
            ns = self.ns[mod]
            m = self.modules[mod]
            save = dict(ns)
            st = self.gen_import(rng.sub(mod), mod, zmod, ns)
            if st is None or st.get('guard'):
                if st is not None:
                    st['guard'] = None
                else:
                    continue
            m['body'].append(st)
            refs = [r for r in self.class_refs(rng, mod, ns, None) if r['id'] in ifaces]
            if not refs:
                continue
            ref = rng.choice(refs)
            if rng.chance(0.5):
                # sub-interface
                cid = self.fid()
                name = f'I{cid}'
                cst = {'k': 'class', 'id': cid, 'name': name, 'body': [], 'deco': [], 'fields': [], 'bases': [dict(ref)]}
                self.defs[cid] = {'kind': 'class', 'name': name, 'module': mod, 'outer': None,
                                  'bases': [ref['id']], 'members': {}, 'iface': True}
                self.cns[cid] = {}
            else:
                cst = self.mk_class(rng, mod, {}, depth=1)
                cid = cst['id']
                irefs = [ref] + [r for r in rng.shuffled(refs) if r['id'] != ref['id']][:rng.randint(0, 2)]
                cst['deco'] = ['implementer(' + ', '.join(r['expr'] for r in irefs) + ')']
                self.defs[cid]['implements'] = [r['id'] for r in irefs]
                if rng.chance(0.4):
                    # some of the same interfaces declared again after the class, together with further ones, in any order
                    others = [r for r in refs if r['id'] not in {x['id'] for x in irefs}]
                    later = rng.shuffled(rng.sample(irefs, rng.randint(1, len(irefs))) + others[:rng.randint(0, 2)])
                    self.defs[cid]['implements'] = self.defs[cid]['implements'] + [r['id'] for r in later]
                    cst['_after'] = {'k': 'raw', 'text': f'classImplements({cst["name"]}, ' + ', '.join(r['expr'] for r in later) + ')'}
                    if 'from zope.interface import classImplements' not in m.setdefault('prelude', []):
                        m['prelude'].append('from zope.interface import classImplements')
                m.setdefault('prelude', [])
                if 'from zope.interface import implementer' not in m['prelude'] and mod != zmod:
                    m['prelude'].append('from zope.interface import implementer')
            m['body'].append(cst)
            if cst.get('_after'):
                m['body'].append(cst.pop('_after'))
            ns[cst['name']] = ['d', cid]
            self._routes[(mod, cst['name'])] = 'local'
            self.loc[cid] = [mod, cst['name']]

    def decide_all(self, rng: Rng, mod: str) -> None:
        p = self.p
        m = self.modules[mod]
        ns = self.ns[mod]
        own = [n for n, b in ns.items() if b[0] == 'd' and self._routes.get((mod, n)) == 'local']
        imported = [n for n, b in ns.items()
                    if b[0] == 'd' and self._routes.get((mod, n)) in ('from', 'from-as', 'star')
                    and self.defs[b[1]]['outer'] is None
                    and self.defs[b[1]]['kind'] in ('class', 'func', 'var')]
        if imported and rng.chance(p['reexport']):
            allnames = [n for n in own if rng.chance(0.8)]
            for n in imported:
                i = ns[n][1]
                cur_mod, cur_name = self.loc[i]
                # Who would pydoctor move it from?  The module where it currently lives.
                if cur_mod == mod:
                    continue
                if self.reexporters.get(i) and not p['multi_reexport']:
                    continue
                if not rng.chance(0.7):
                    continue
                # moved only if the module it is imported from does not list it in its own __all__
                allnames.append(n)
                # every import statement that binds n is a chance to move the object: it is moved by the first one
                # whose source module does not itself list the name in __all__
                origins = self._origins.get((mod, n)) or [self._origin[(mod, n)]]
                moving = [(om, on) for om, on in origins
                          if self.modules[om]['all'] is None or on not in self.modules[om]['all']]
                if moving:
                    self.reexporters.setdefault(i, []).append(mod)
                    self.loc[i] = [mod, n]
                    d = self.defs[i]
                    direct = all(om == d['module'] and on == d['name'] and self._routes.get((om, on)) == 'local'
                                 for om, on in origins)
                    if not direct and not self.p['cyclic']:
                        # (acyclic worlds only: in an import cycle the intermediate module may not have the name yet)
                        # one intermediate module that itself imported the object straight from its defining module is
                        # still within what pydoctor follows (one alias hop): count it as direct; longer chains are not
                        def one_hop(om: str, on: str) -> bool:
                            if om == d['module'] and on == d['name'] and self._routes.get((om, on)) == 'local':
                                return True
                            o2 = self._origins.get((om, on)) or ([self._origin[(om, on)]] if (om, on) in self._origin else [])
                            return bool(o2) and self._routes.get((om, on)) in ('from', 'from-as', 'star') and all(
                                a == d['module'] and b_ == d['name'] and self._routes.get((a, b_)) == 'local' for a, b_ in o2)
                        direct = all(one_hop(om, on) for om, on in origins)
                    self.reexport_direct[i] = self.reexport_direct.get(i, True) and direct
            if p['method_alias_reexport'] > 0:
                for n, b in ns.items():
                    if b[0] == 'd' and self.defs[b[1]]['outer'] is not None and \
                            self._routes.get((mod, n)) in ('from', 'star') and rng.chance(0.7):
                        allnames.append(n)
                        self.exotic.add('method_alias_reexported')
            rng.shuffle(allnames)
            m['all'] = allnames
        elif own and rng.chance(p['own_all']):
            m['all'] = [n for n in own if rng.chance(0.7)]

    # -- driver
    def generate(self) -> Dict[str, Any]:
        self._routes: Dict[Tuple[str, str], str] = {}
        self._vias: Dict[Tuple[str, str], Any] = {}
        self._plain_imports: Dict[str, List[str]] = {}
        self._origin: Dict[Tuple[str, str], Tuple[str, str]] = {}
        self._origins: Dict[Tuple[str, str], List[Tuple[str, str]]] = {}
        self.done: List[str] = []
        self.exotic: set = set()
        self.cns_origin: Dict[int, Dict[str, List[str]]] = {}
        self.cns_vias: Dict[int, Dict[str, str]] = {}
        self.docassigned: set = set()
        self.reexport_direct: Dict[int, bool] = {}
        self._star_importers: Dict[str, List[str]] = {}
        self.loc_unsure: set = set()
        self.method_aliases: List[Tuple[str, str, int]] = []
        self.rng_rel = self.rng.sub('rel')
        self.layout()
        if getattr(self, 'exotic_layout', False):
            self.exotic.add('root_clash')
        order = self.rng.sub('pi').shuffled(list(self.modules))
        if self.p['consumer_roots']:
            # modules of secondary roots come last in the import order: they are the consumers
            main = self.root_of(next(iter(self.modules)))
            order.sort(key=lambda mm: 0 if self.root_of(mm) == main else 1)
        for mod in order:
            self.fill_module(mod, list(self.done))
            self.done.append(mod)
        if self.rng.sub('zope?').chance(self.p['zope']):
            self.zope_knob(self.rng.sub('zope'), order)
        if self.p['cyclic']:
            self.add_back_edges(order)
        if self.p.get('pkg_docformat', 0) and self.rng.sub('pkgdocformat?').chance(self.p['pkg_docformat']):
            # the root package declares its docformat in __init__; the modules below inherit it, and the fields in their
            # class docstrings are written in that format
            root = next(iter(self.modules))
            if self.modules[root]['pkg']:
                self.modules[root]['docformat'] = 'restructuredtext'
                for mn, mm in self.modules.items():
                    if mn == root or mn.startswith(root + '.'):
                        for _, st in iter_stmts(mm['body']):
                            if st['k'] == 'class' and st.get('fields'):
                                st['fields_style'] = 'rst'
                self.exotic.add('pkg_docformat')
        if self.p.get('submodule_clash', 0) and self.rng.sub('subclash?').chance(self.p['submodule_clash']):
            self.submodule_clash(self.rng.sub('subclash'))
        truth = {
            'exotic': sorted(self.exotic),
            'import_order': order,
            'ns': self.ns,
            'cns': {str(k): v for k, v in self.cns.items()},
            'defs': {str(k): v for k, v in self.defs.items()},
            'edges': sorted(set((a, b) for a, b in self.edges)),
            'reexporters': {str(k): v for k, v in self.reexporters.items()},
            'loc': {str(k): v for k, v in self.loc.items()},
            'routes': {f'{a}:{b}': v for (a, b), v in self._routes.items()},
            'vias': {f'{a}:{b}': v for (a, b), v in self._vias.items() if v is not None},
            'origin': {f'{a}:{b}': list(v) for (a, b), v in self._origin.items()},
            'reexport_direct': {str(k): v for k, v in self.reexport_direct.items()},
            'loc_unsure': sorted(self.loc_unsure),
            'cns_origin': {str(k): v for k, v in self.cns_origin.items()},
        }
        truth['cyclic'] = has_cycle(list(self.modules), truth['edges'])
        return {'modules': self.modules, 'truth': truth, 'profile': self.p}

    def add_back_edges(self, order: List[str]) -> None:
        rng = self.rng.sub('back')
        n = rng.randint(1, 2)
        for _ in range(n):
            if len(order) < 2:
                return
            i = rng.below(len(order) - 1)
            mod = order[i]
            later = order[i + 1:]
            # prefer a later module that (transitively) imports `mod`, so that a real cycle forms
            reach = [t for t in later if self._reaches(t, mod)]
            target = rng.choice(reach) if reach and rng.chance(0.85) else rng.choice(later)
            ns = self.ns[mod]
            save_done = self.done
            before = dict(ns)
            st = self.gen_import(rng, mod, target, ns, back_edge=True)
            if st is None:
                continue
            st['back'] = True
            if self._star_importers.get(mod) and self.modules[mod]['all'] is None:
                # the names this statement binds now also travel through every `from mod import *` written earlier
                # (the star importers were generated before the back edge existed): whether such an importer - which
                # may list the name in __all__ - thereby re-exports the object is not recorded, so where these objects
                # belong is not judged
                for n, b in ns.items():
                    if before.get(n) != b and b[0] == 'd' and not n.startswith('_'):
                        self.loc_unsure.add(b[1])
            body = self.modules[mod]['body']
            pos = rng.below(len(body) + 1)
            if self.p.get('back_edge_bottom'):
                pos = len(body)
            body.insert(pos, st)
            # maybe use it as a base of a new class placed after the import
            if rng.chance(0.6) and not self.p.get('back_edge_bottom'):
                cst = self.mk_class(rng, mod, ns)
                # forbid inheritance cycles: drop bases that descend from nothing in this module is
                # guaranteed because the new class is new; fine.
                ns[cst['name']] = ['d', cst['id']]
                self._routes[(mod, cst['name'])] = 'local'
                self.loc[cst['id']] = [mod, cst['name']]
                body.insert(rng.randint(pos + 1, len(body)), cst)

    def _reaches(self, a: str, b: str) -> bool:
        seen = set()
        stack = [a]
        while stack:
            x = stack.pop()
            if x == b:
                return True
            if x in seen:
                continue
            seen.add(x)
            stack.extend(t for (s, t) in self.edges if s == x)
        return False


def has_cycle(nodes: List[str], edges: Iterable[Tuple[str, str]]) -> bool:
    adj: Dict[str, List[str]] = {n: [] for n in nodes}
    for a, b in edges:
        if a == b:
            return True
        adj.setdefault(a, []).append(b)
        adj.setdefault(b, [])
    color: Dict[str, int] = {}

    def visit(n: str) -> bool:
        color[n] = 1
        for t in adj[n]:
            c = color.get(t, 0)
            if c == 1:
                return True
            if c == 0 and visit(t):
                return True
        color[n] = 2
        return False
    return any(color.get(n, 0) == 0 and visit(n) for n in list(adj))


def canonical_order(modules: Dict[str, Any]) -> List[str]:
    """Depth-first, each package's own module first, children sorted by name: the
    order ``System.addPackage`` produces (it sorts paths; ``sub`` the directory and
    ``sub.py`` compare by their path names)."""
    kids: Dict[Optional[str], List[str]] = {}
    for name in modules:
        par = name.rpartition('.')[0] or None
        kids.setdefault(par, []).append(name)
    out: List[str] = []

    def walk(par: Optional[str]) -> None:
        for k in sorted(kids.get(par, []), key=lambda n: n.rpartition('.')[2] + ('' if modules[n]['pkg'] else '.py')):
            out.append(k)
            if modules[k]['pkg']:
                walk(k)
    walk(None)
    return out


def gen_world(rng: Rng, prof: Optional[Dict[str, Any]] = None) -> Dict[str, Any]:
    g = _Gen(rng, prof or dict(DEFAULT_PROFILE))
    world = g.generate()
    if g.p.get('hide_overrides', 0):
        # privacy rules that hide a member which overrides an inherited one (or its whole class): what the run is
        # configured with is part of the world
        r = rng.sub('hide-overrides')
        defs = g.defs
        rules: List[List[str]] = []
        hidden: List[int] = []
        for cid in sorted(k for k, d in defs.items() if d['kind'] == 'class'):
            d = defs[cid]
            anc = g.ancestors(cid)
            over = sorted(n for n in d.get('members', {}) if any(n in defs[a].get('members', {}) for a in anc))
            if not over or not r.sub(cid).chance(g.p['hide_overrides']):
                continue
            if r.sub(cid).sub('whole').chance(0.3):
                rules.append(['HIDDEN', f'**.{d["name"]}'])
                hidden.append(cid)
            else:
                n = r.sub(cid).sub('which').choice(over)
                rules.append(['HIDDEN', f'**.{d["name"]}.{n}'])
                hidden.append(d['members'][n])
        if rules:
            world['privacy'] = rules
            world['hidden_members'] = hidden
    return world


# --------------------------------------------------------------------------
# renderer

def _doc(i: int, extra: str = '', indent: str = '    ') -> str:
    return f'{indent}"""Marker M{i}M.{extra}"""\n'


def render_stmt(st: Dict[str, Any], indent: str, out: List[str], in_class: bool = False, py: bool = False) -> None:
    k = st['k']
    if k == 'class':
        for d in st.get('deco', []):
            out.append(f'{indent}@{d}\n')
        bases = ', '.join((b['expr'] + '[int]') if b.get('sub') else b['expr'] for b in st['bases'])
        out.append(f'{indent}class {st["name"]}({bases}):\n' if bases else f'{indent}class {st["name"]}:\n')
        extra = ''
        for f in st.get('fields', []):
            lead = ':' if st.get('fields_style') == 'rst' else '@'
            extra += f'\n{indent}    {lead}{f["tag"]} {f["name"]}: Marker M{f["id"]}M.'
        if extra:
            extra += f'\n{indent}    '
            if st.get('fields_style') == 'rst':
                extra = '\n' + extra      # a reST field list needs a blank line after the paragraph
        if not st.get('nodoc'):
            out.append(_doc(st['id'], extra + st.get('docextra', ''), indent + '    '))
        if py:
            # only when the world is imported by CPython to validate the ground truth
            out.append(f'{indent}    def __class_getitem__(cls, item): return cls\n')
        for s in st['body']:
            render_stmt(s, indent + '    ', out, in_class=True, py=py)
        if st.get('nodoc') and not st['body']:
            out.append(f'{indent}    pass\n')
    elif k == 'func':
        deco = st.get('deco')
        if deco:
            out.append(f'{indent}@{deco}\n')
        if in_class and deco != 'staticmethod':
            first = 'cls' if deco == 'classmethod' else 'self'
            params = [first]
        else:
            params = []
        for pn, r in (st.get('ann') or {}).items():
            params.append(f'{pn}: {_q(r)}')
        for pn in st.get('params', []):
            params.append(pn)
        ret = f' -> {_q(st["ret"])}' if st.get('ret') else ''
        out.append(f'{indent}{"async " if st.get("is_async") else ""}def {st["name"]}({", ".join(params)}){ret}:\n')
        if st.get('emptydoc'):
            out.append(f'{indent}    """"""\n')
        elif not st.get('nodoc'):
            out.append(_doc(st['id'], st.get('docextra', ''), indent + '    '))
        for sa in st.get('selfattrs', []):
            out.append(f'{indent}    self.{sa["name"]} = "M{sa["id"]}M"\n')
            out.append(_doc(sa['id'], '', indent + '    '))
        inner = st.get('inner')
        if inner:
            # local definitions: they are not part of the API and must not be documented
            pre = indent + '    '
            if inner == 'nested-block':
                out.append(f'{pre}if True:\n')
                pre += '    '
            if inner in ('def', 'both', 'nested-block'):
                out.append(f'{pre}def local_helper(x):\n{pre}    \"\"\"Local helper.\"\"\"\n{pre}    return x\n')
            if inner in ('class', 'both', 'nested-block'):
                out.append(f'{pre}class LocalThing:\n{pre}    \"\"\"Local class.\"\"\"\n{pre}    def run(self):\n{pre}        return 1\n')
        out.append(f'{indent}    return None\n')
    elif k == 'var':
        ann = f': {_q(st["ann"])}' if st.get('ann') else ''
        if st.get('decl_only'):
            out.append(f'{indent}{st["name"]}: str\n')
        else:
            out.append(f'{indent}{st["name"]}{ann} = "M{st["id"]}M"\n')
        if not st.get('nodoc'):
            out.append(_doc(st['id'], st.get('docextra', ''), indent))
    elif k == 'import':
        pre = indent
        if st.get('guard') == 'tc':
            out.append(f'{indent}if TYPE_CHECKING:\n')
            pre = indent + '    '
        out.append(f'{pre}import {st["mod"]}' + (f' as {st["as"]}' if st.get('as') else '') + '\n')
    elif k == 'from':
        pre = indent
        if st.get('guard') == 'tc':
            out.append(f'{indent}if TYPE_CHECKING:\n')
            pre = indent + '    '
        src = ('.' * st['level'] + st['rel']) if st['level'] else st['mod']
        if st['names'] == '*':
            names = '*'
        else:
            names = ', '.join(n if not a else f'{n} as {a}' for n, a in st['names'])
        out.append(f'{pre}from {src} import {names}\n')
    elif k == 'alias':
        out.append(f'{indent}{st["name"]} = {st["target"]["expr"]}\n')
    elif k == 'docassign':
        out.append(f'{indent}{st["target"]["expr"]}.__doc__ = {st["text"]!r}\n')
    elif k in ('ifelse', 'tryexcept'):
        if k == 'ifelse':
            out.append(f'{indent}if {st.get("cond", "1")}:\n')
        else:
            out.append(f'{indent}try:\n')
        for s in st['then']:
            render_stmt(s, indent + '    ', out, in_class, py)
        if not st['then']:
            out.append(f'{indent}    pass\n')
        out.append(f'{indent}else:\n' if k == 'ifelse' else f'{indent}except ImportError:\n')
        for s in st['else']:
            render_stmt(s, indent + '    ', out, in_class, py)
        if not st['else']:
            out.append(f'{indent}    pass\n')
    elif k == 'implements':
        if st['form'] == 'classImplements':
            out.append(f'{indent}classImplements({st["cls"]["expr"]}, {", ".join(r["expr"] for r in st["ifaces"])})\n')
    elif k == 'raw':
        for line in st['text'].splitlines():
            out.append(f'{indent}{line}\n')
    else:
        raise ValueError(k)


def _q(r: Dict[str, Any]) -> str:
    return r['expr'] + ('[int]' if r.get('sub') else '')


def render_module(name: str, m: Dict[str, Any], tc_true: bool = False) -> str:
    out: List[str] = []
    out.append(f'"""Module marker M{m["mid"]}M for {name}.{m.get("docextra", "")}"""\n')
    if m.get('docformat'):
        out.append(f'__docformat__ = {m["docformat"]!r}\n')
    uses_tc = _any_stmt(m['body'], lambda s: s.get('guard') == 'tc')
    if uses_tc:
        out.append('TYPE_CHECKING = True\n' if tc_true else 'from typing import TYPE_CHECKING\n')
    for pre in m.get('prelude', []):
        out.append(pre + '\n')
    if m['all'] is not None and not m.get('all_at_end'):
        out.append(f'__all__ = {m["all"]!r}\n')
    for st in m['body']:
        render_stmt(st, '', out, py=tc_true)
    if m['all'] is not None and m.get('all_at_end'):
        out.append(f'__all__ = {m["all"]!r}\n')
    return ''.join(out)


def _any_stmt(body: List[Dict[str, Any]], pred: Any) -> bool:
    for s in body:
        if pred(s):
            return True
        for key in ('body', 'then', 'else'):
            if key in s and _any_stmt(s[key], pred):
                return True
    return False


def iter_stmts(body: List[Dict[str, Any]], scope: Tuple[Any, ...] = ()) -> Iterator[Tuple[Tuple[Any, ...], Dict[str, Any]]]:
    """Yield (enclosing class ids, stmt) for every statement, depth first."""
    for s in body:
        yield scope, s
        if s['k'] == 'class':
            yield from iter_stmts(s['body'], scope + (s['id'],))
        elif s['k'] in ('ifelse', 'tryexcept'):
            yield from iter_stmts(s['then'], scope)
            yield from iter_stmts(s['else'], scope)


def render_world(world: Dict[str, Any], tc_true: bool = False) -> Dict[str, str]:
    """modname -> source text"""
    return {name: render_module(name, m, tc_true) for name, m in world['modules'].items()}


def modpath(name: str, pkg: bool) -> str:
    return name.replace('.', '/') + ('/__init__.py' if pkg else '.py')


def world_files(world: Dict[str, Any], tc_true: bool = False) -> Dict[str, str]:
    """relative path -> source text"""
    return {modpath(name, m['pkg']): render_module(name, m, tc_true) for name, m in world['modules'].items()}


def world_digest(world: Dict[str, Any]) -> str:
    import hashlib
    return hashlib.blake2b(json.dumps(render_world(world), sort_keys=True).encode(), digest_size=8).hexdigest()
