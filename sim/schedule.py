"""Module processing schedules (S1).

A schedule is a permutation of the roots and, for every package, a permutation
of its children; the registration order is the depth-first pre-order (a
package's own ``__init__`` first, then each child, sub-packages expanded in
place) -- exactly the orders reachable by renaming modules or reordering the
command-line paths, which is what C06 quantifies over.
"""
from __future__ import annotations

import itertools
import math
from typing import Any, Dict, Iterator, List, Optional, Sequence

from .prng import Rng


def children(modules: Dict[str, Any]) -> Dict[Optional[str], List[str]]:
    kids: Dict[Optional[str], List[str]] = {}
    for name in modules:
        par = name.rpartition('.')[0] or None
        kids.setdefault(par, []).append(name)
    return kids


def count(modules: Dict[str, Any]) -> int:
    n = 1
    for par, ks in children(modules).items():
        n *= math.factorial(len(ks))
    return n


def _expand(kids: Dict[Optional[str], List[str]], perm_of: Dict[Optional[str], Sequence[str]]) -> List[str]:
    out: List[str] = []

    def walk(par: Optional[str]) -> None:
        for k in perm_of.get(par, ()):
            out.append(k)
            if k in kids:
                walk(k)
    walk(None)
    return out


def canonical(modules: Dict[str, Any]) -> List[str]:
    """The order pydoctor itself uses for this tree (world['modules'] is stored in it)."""
    kids = children(modules)
    return _expand(kids, kids)


def reverse(modules: Dict[str, Any]) -> List[str]:
    kids = children(modules)
    return _expand(kids, {p: list(reversed(ks)) for p, ks in kids.items()})


def enumerate_all(modules: Dict[str, Any]) -> Iterator[List[str]]:
    kids = children(modules)
    pars = list(kids)
    for combo in itertools.product(*(itertools.permutations(kids[p]) for p in pars)):
        yield _expand(kids, dict(zip(pars, combo)))


def sample(modules: Dict[str, Any], rng: Rng) -> List[str]:
    kids = children(modules)
    return _expand(kids, {p: rng.sub(p).shuffled(ks) for p, ks in kids.items()})


def schedules_for(modules: Dict[str, Any], rng: Rng, limit: int = 720, nsample: int = 24) -> (List[List[str]], bool):
    """All schedules when there are at most ``limit``; otherwise the canonical
    one, its reverse and ``nsample`` seeded samples (deduplicated)."""
    n = count(modules)
    if n <= limit:
        return list(enumerate_all(modules)), True
    seen = set()
    out: List[List[str]] = []
    for s in [canonical(modules), reverse(modules)] + [sample(modules, rng.sub(i)) for i in range(nsample)]:
        t = tuple(s)
        if t not in seen:
            seen.add(t)
            out.append(s)
    return out, False


def is_valid(modules: Dict[str, Any], sched: Sequence[str]) -> bool:
    """Every package before its descendants, each subtree contiguous."""
    if sorted(sched) != sorted(modules):
        return False
    kids = children(modules)
    pos = {m: i for i, m in enumerate(sched)}

    def size(m: str) -> int:
        return 1 + sum(size(k) for k in kids.get(m, []))
    for m in modules:
        sub = [x for x in modules if x == m or x.startswith(m + '.')]
        lo = pos[m]
        if sorted(pos[x] for x in sub) != list(range(lo, lo + len(sub))):
            return False
    return True
