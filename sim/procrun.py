"""Process-level simulated runs: one fresh interpreter per run (the hash seed
cannot be changed after start-up)."""
from __future__ import annotations

import hashlib
import json
import os
import shutil
import subprocess
import sys
from typing import Any, Dict, List, Optional, Tuple

BOOT = os.path.join(os.path.dirname(os.path.abspath(__file__)), 'boot.py')


def run_pydoctor(argv: List[str], workdir: str, *, hashseed: int = 0, tz: str = 'UTC',
                 listing_seed: Optional[int] = None, now: Optional[float] = None,
                 source_date_epoch: Optional[int] = None, preserve_order: bool = False,
                 record_registration: bool = False, timeout: float = 300.0,
                 extra_env: Optional[Dict[str, str]] = None) -> Dict[str, Any]:
    """Run ``pydoctor argv`` in a fresh interpreter with the seams installed.
    ``workdir`` must be an existing scratch directory; the process runs with an
    empty sub-directory of it as cwd."""
    n = 0
    while os.path.exists(os.path.join(workdir, f'.run{n}')):
        n += 1
    rundir = os.path.join(workdir, f'.run{n}')
    os.makedirs(os.path.join(rundir, 'cwd'))
    cfgpath = os.path.join(rundir, 'cfg.json')
    respath = os.path.join(rundir, 'result.json')
    cfg = {'argv': argv, 'listing_seed': listing_seed, 'now': now, 'preserve_order': preserve_order,
           'record_registration': record_registration, 'result': respath, 'repo': os.environ.get('VERIF_REPO') or '/repo',
           'listing_root': os.path.abspath(workdir)}
    with open(cfgpath, 'w') as f:
        json.dump(cfg, f)
    env = {
        'PATH': os.environ.get('PATH', '/usr/bin:/bin'),
        'HOME': rundir,
        'PYTHONHASHSEED': str(hashseed),
        'PYTHONDONTWRITEBYTECODE': '1',
        'TZ': tz,
        'LC_ALL': 'C.UTF-8',
        'PYTHONIOENCODING': 'utf-8',
    }
    if source_date_epoch is not None:
        env['SOURCE_DATE_EPOCH'] = str(source_date_epoch)
    if extra_env:
        env.update(extra_env)
    try:
        p = subprocess.run([sys.executable, '-B', BOOT, cfgpath], cwd=os.path.join(rundir, 'cwd'), env=env,
                           stdout=subprocess.PIPE, stderr=subprocess.STDOUT, timeout=timeout)
        out = p.stdout.decode('utf-8', 'replace')
        code = p.returncode
        timed_out = False
    except subprocess.TimeoutExpired as e:
        out = (e.stdout or b'').decode('utf-8', 'replace')
        code = -1
        timed_out = True
    res: Dict[str, Any] = {'exit': code, 'stdout': out, 'timeout': timed_out, 'registered': [], 'seam_stats': {}}
    try:
        with open(respath) as f:
            res.update(json.load(f))
    except (OSError, ValueError):
        pass
    res['exit'] = code if not timed_out else -1
    shutil.rmtree(rundir, ignore_errors=True)
    return res


def tree_digest(root: str) -> Dict[str, str]:
    """relative path -> 'f:<blake2 of bytes>' | 'l:<symlink target>' | 'd'"""
    out: Dict[str, str] = {}
    for dirpath, dirnames, filenames in os.walk(root):
        dirnames.sort()
        for name in sorted(dirnames + filenames):
            full = os.path.join(dirpath, name)
            rel = os.path.relpath(full, root)
            if os.path.islink(full):
                out[rel] = 'l:' + os.readlink(full)
            elif os.path.isdir(full):
                out[rel] = 'd'
            else:
                with open(full, 'rb') as f:
                    out[rel] = 'f:' + hashlib.blake2b(f.read(), digest_size=12).hexdigest()
    return out


def diff_trees(a: Dict[str, str], b: Dict[str, str]) -> List[Tuple[str, str]]:
    """[(path, 'missing'|'extra'|'differs')]"""
    out = []
    for k in sorted(set(a) | set(b)):
        if k not in b:
            out.append((k, 'missing'))
        elif k not in a:
            out.append((k, 'extra'))
        elif a[k] != b[k]:
            out.append((k, 'differs'))
    return out


def first_difference(pa: str, pb: str) -> Dict[str, Any]:
    """Locate and classify the first differing region of two files."""
    try:
        with open(pa, 'rb') as f:
            a = f.read()
        with open(pb, 'rb') as f:
            b = f.read()
    except OSError as e:
        return {'where': 'unreadable', 'error': str(e)}
    n = min(len(a), len(b))
    i = 0
    while i < n and a[i] == b[i]:
        i += 1
    ctx_a = a[max(0, i - 80):i + 80].decode('utf-8', 'replace')
    ctx_b = b[max(0, i - 80):i + 80].decode('utf-8', 'replace')
    before = a[:i].decode('utf-8', 'replace')
    where = 'text'
    lt = before.rfind('<')
    gt = before.rfind('>')
    if lt > gt:
        tag = before[lt:lt + 40]
        where = 'inside-tag:' + tag.split()[0].strip('<>/') if tag.split() else 'inside-tag'
        # attribute name
        import re
        m = re.findall(r'([a-zA-Z-]+)="[^"]*$', before[lt:])
        if m:
            where += '@' + m[-1]
    else:
        import re
        m = re.findall(r'<([a-zA-Z0-9]+)[^<>]*>[^<]*$', before[-300:])
        if m:
            where = 'text-in:' + m[-1]
    return {'offset': i, 'where': where, 'a': ctx_a, 'b': ctx_b}
