#!/bin/bash
# Re-run every seeded change and every own mutant against the quick tier (modifies /repo temporarily, always reverts).
cd /verif
for d in seeded/*/; do id=$(basename $d); prop=$(python3 -c "import json;print(json.load(open('$d/meta.json'))['property'])"); extra=""; python3 tools_seeded.py check $id $prop 2>&1 | tail -1 | cut -c1-160; done
python3 tools_mutants.py 2>&1 | tail -30
git -C /repo status --short
