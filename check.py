#!/venv/bin/python
"""Entry point:  /venv/bin/python -B /verif/check.py Cxx --tier quick|thorough [--replay FILE]

Re-executes itself once with a fixed hash seed and from an empty working
directory (pydoctor's Options.from_args reads ./pyproject.toml, ./setup.cfg and
./pydoctor.ini), never writes byte code, and always imports pydoctor from
/repo's current working tree.
"""
import os
import sys
import tempfile

VERIF = os.path.dirname(os.path.abspath(__file__))


def _scratch_root() -> str:
    for base in ('/dev/shm', tempfile.gettempdir()):
        if os.path.isdir(base) and os.access(base, os.W_OK):
            return base
    return tempfile.gettempdir()


def main() -> int:
    if os.environ.get('VERIF_REEXEC') != '1':
        env = dict(os.environ)
        env['VERIF_REEXEC'] = '1'
        env['PYTHONHASHSEED'] = env.get('VERIF_HARNESS_HASHSEED', '0')
        env['PYTHONDONTWRITEBYTECODE'] = '1'
        env.pop('SOURCE_DATE_EPOCH', None)
        argv = list(sys.argv)
        for i, a in enumerate(argv[:-1]):
            if a == '--replay':
                argv[i + 1] = os.path.abspath(argv[i + 1])
        sys.argv = argv
        cwd = tempfile.mkdtemp(prefix='verif-cwd-', dir=_scratch_root())
        env['VERIF_CWD'] = cwd
        env['VERIF_SCRATCH'] = _scratch_root()
        os.chdir(cwd)
        os.execve(sys.executable, [sys.executable, '-B', os.path.join(VERIF, 'check.py')] + sys.argv[1:], env)
    sys.path.insert(0, VERIF)
    sys.path.insert(0, os.environ.get('VERIF_REPO') or '/repo')   # VERIF_REPO: a snapshot of /repo for background soaks
    try:
        from sim import harness
        return harness.main(sys.argv[1:])
    finally:
        cwd = os.environ.get('VERIF_CWD')
        if cwd and os.path.isdir(cwd):
            import shutil
            os.chdir('/')
            shutil.rmtree(cwd, ignore_errors=True)


if __name__ == '__main__':
    sys.exit(main())
