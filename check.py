#!/venv/bin/python
"""Entry point:  /venv/bin/python -B /verif/check.py Cxx --tier quick|thorough [--replay FILE]

Re-executes itself once with a fixed hash seed and from an empty working
directory (pydoctor's Options.from_args reads ./pyproject.toml, ./setup.cfg and
./pydoctor.ini), never writes byte code, and always imports pydoctor from
/repo's current working tree.
"""
import os
import sys
import tempfile

VERIF = os.path.dirname(os.path.abspath(__file__))


def _scratch_root() -> str:
    for base in ('/dev/shm', tempfile.gettempdir()):
        if os.path.isdir(base) and os.access(base, os.W_OK):
            return base
    return tempfile.gettempdir()


def main() -> int:
    if os.environ.get('VERIF_REEXEC') != '1':
        env = dict(os.environ)
        env['VERIF_REEXEC'] = '1'
        env['PYTHONHASHSEED'] = env.get('VERIF_HARNESS_HASHSEED', '0')
        env['PYTHONDONTWRITEBYTECODE'] = '1'
        env.pop('SOURCE_DATE_EPOCH', None)
        argv = list(sys.argv)
        for i, a in enumerate(argv[:-1]):
            if a == '--replay':
                argv[i + 1] = os.path.abspath(argv[i + 1])
        sys.argv = argv
        # one scratch directory per run: the empty working directory and everything the tasks write live below it and
        # are removed when the run ends (also what tasks killed by the wall-clock backstop left behind)
        run_dir = tempfile.mkdtemp(prefix='verif-run-', dir=_scratch_root())
        cwd = os.path.join(run_dir, 'cwd')
        os.makedirs(cwd)
        os.makedirs(os.path.join(run_dir, 'tmp'))
        env['VERIF_CWD'] = cwd
        env['VERIF_RUN_DIR'] = run_dir
        env['VERIF_SCRATCH'] = os.path.join(run_dir, 'tmp')
        os.chdir(cwd)
        os.execve(sys.executable, [sys.executable, '-B', os.path.join(VERIF, 'check.py')] + sys.argv[1:], env)
    sys.path.insert(0, VERIF)
    sys.path.insert(0, os.environ.get('VERIF_REPO') or '/repo')   # VERIF_REPO: a snapshot of /repo for background soaks
    try:
        from sim import harness
        return harness.main(sys.argv[1:])
    finally:
        run_dir = os.environ.get('VERIF_RUN_DIR')
        if run_dir and os.path.isdir(run_dir) and os.path.basename(run_dir).startswith('verif-run-'):
            import shutil
            os.chdir('/')
            shutil.rmtree(run_dir, ignore_errors=True)


if __name__ == '__main__':
    sys.exit(main())
