"""Determinism self-test across processes: run the first N tasks of every check under different
harness hash seeds and worker counts (fresh interpreter each) and diff the per-task result digests.

    python3 tools_determinism.py [N]        -> notes/determinism.json, exit 1 on any divergence
"""
import json
import os
import subprocess
import sys
import tempfile

CHECKS = {'C01': 48, 'C02': 200, 'C04': 200, 'C05': 200, 'C06': 200, 'C07': 200, 'C08': 12, 'C17': 100, 'C18': 10}
CONFIGS = [('0', '16'), ('1', '16'), ('987654', '5'), ('0', '3')]


def main() -> int:
    scale = float(sys.argv[1]) if len(sys.argv) > 1 else 1.0
    out = {}
    bad = 0
    for c, n in CHECKS.items():
        n = max(4, int(n * scale))
        digs = []
        for hs, jobs in CONFIGS:
            fd, path = tempfile.mkstemp(suffix='.json')
            os.close(fd)
            env = dict(os.environ, VERIF_HARNESS_HASHSEED=hs, VERIF_TASKS=str(n), VERIF_SEED='3')
            r = subprocess.run(['/venv/bin/python', '-B', '/verif/check.py', c, '--tier', 'quick', '--no-evidence', '--no-minimise',
                                '--jobs', jobs, '--budget', '900', '--dump-digests', path], env=env, capture_output=True, text=True)
            try:
                digs.append(json.load(open(path)))
            except Exception:
                digs.append({'error': r.stdout[-300:]})
            os.unlink(path)
            subprocess.run('rm -f /verif/replays/*.json', shell=True)
        same = all(d == digs[0] for d in digs[1:]) and len(digs[0]) >= n and 'error' not in digs[0]
        out[c] = {'tasks': n, 'configs': [f'harness PYTHONHASHSEED={h}, jobs={j}' for h, j in CONFIGS], 'identical': same,
                  'tasks_compared': len(digs[0])}
        print(c, 'identical' if same else 'DIVERGENT', len(digs[0]), 'tasks x', len(CONFIGS), 'configurations')
        bad += 0 if same else 1
    os.makedirs('/verif/notes', exist_ok=True)
    json.dump(out, open('/verif/notes/determinism.json', 'w'), indent=1)
    return 1 if bad else 0


if __name__ == '__main__':
    sys.exit(main())
