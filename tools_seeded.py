"""Confirm a sub-agent's seeded change and run the checks against it.

    python3 tools_seeded.py confirm <id> <worktree> <seeddir>     verify tests/demo in the scratch worktree, copy into /verif/seeded/<id>/
    python3 tools_seeded.py check <id> [Cxx ...]                  apply /verif/seeded/<id>/patch.diff to /repo, run the checks, revert
"""
import json
import os
import shutil
import subprocess
import sys
import time

BASE_FAIL = None


def run(cmd, **kw):
    return subprocess.run(cmd, shell=True, capture_output=True, text=True, **kw)


def failing(tree):
    r = run('/venv/bin/python -m pytest -q -p no:cacheprovider --timeout=900 -n 8 2>&1 | grep -E "^FAILED|^ERROR|passed|failed"', cwd=tree)
    lines = r.stdout.strip().splitlines()
    fails = sorted(l.split(' - ')[0] for l in lines if l.startswith(('FAILED', 'ERROR')))
    summary = lines[-1] if lines else ''
    return fails, summary


def confirm(sid, wt, seeddir):
    out = {'id': sid}
    patch = open(os.path.join(seeddir, 'patch.diff')).read()
    meta = json.load(open(os.path.join(seeddir, 'meta.json')))
    # pristine scratch worktree for the comparison
    pristine = f'/tmp/wt-pristine-{sid}'
    run(f'git -C /repo worktree remove --force {pristine}')
    run(f'git -C /repo worktree add --detach {pristine} HEAD')
    try:
        ap = run(f'git -C {pristine} apply --check {seeddir}/patch.diff')
        out['applies'] = ap.returncode == 0
        base_f, base_s = failing(pristine)
        demo0 = run(f'/venv/bin/python {seeddir}/demo.py', cwd=pristine)
        out['demo_without'] = demo0.returncode
        run(f'git -C {pristine} apply {seeddir}/patch.diff')
        comp = run('/venv/bin/python -c "import sys, os; sys.path.insert(0, os.getcwd()); import pydoctor.driver, pydoctor.templatewriter.summary"', cwd=pristine)
        out['compiles'] = comp.returncode == 0
        f, s = failing(pristine)
        out['tests_with'] = s
        out['tests_without'] = base_s
        out['same_failures'] = f == base_f
        demo1 = run(f'/venv/bin/python {seeddir}/demo.py', cwd=pristine)
        out['demo_with'] = demo1.returncode
        out['demo_with_tail'] = (demo1.stdout + demo1.stderr).strip().splitlines()[-3:]
    finally:
        run(f'git -C /repo worktree remove --force {pristine}')
    ok = out['applies'] and out['compiles'] and out['same_failures'] and out['demo_with'] == 1 and out['demo_without'] == 0
    out['confirmed'] = ok
    print(json.dumps(out, indent=1))
    if ok:
        dst = f'/verif/seeded/{sid}'
        os.makedirs(dst, exist_ok=True)
        shutil.copy(os.path.join(seeddir, 'patch.diff'), dst)
        shutil.copy(os.path.join(seeddir, 'demo.py'), dst)
        m = {'property': meta.get('property'), 'summary': meta.get('summary'), 'needs': meta.get('needs'),
             'files_touched': meta.get('files_touched'), 'origin': 'independent sub-agent given only the property text and a scratch worktree',
             'confirmed': {k: out[k] for k in ('applies', 'compiles', 'tests_with', 'tests_without', 'same_failures', 'demo_with', 'demo_without')},
             'what_i_ran': 'tools_seeded.py confirm: fresh scratch worktree of /repo HEAD; pytest -n 8 without and with the patch (same failing set); demo.py exit 0 without / 1 with the patch'}
        json.dump(m, open(os.path.join(dst, 'meta.json'), 'w'), indent=1)
    return 0 if ok else 1


def check(sid, checks):
    dst = f'/verif/seeded/{sid}'
    meta = json.load(open(os.path.join(dst, 'meta.json')))
    if run('git -C /repo status --porcelain').stdout.strip():
        print('refusing: /repo has uncommitted changes')
        return 2
    checks = checks or [meta['property']]
    res = {}
    try:
        ap = run(f'git -C /repo apply {dst}/patch.diff')
        if ap.returncode != 0:
            print('patch does not apply:', ap.stderr)
            return 2
        for c in checks:
            t0 = time.time()
            r = run(f'/venv/bin/python -B /verif/check.py {c} --tier quick --no-evidence --no-minimise', cwd='/verif')
            sigs = [l.split('violation signature: ')[1] for l in r.stdout.splitlines() if l.startswith('violation signature: ')]
            res[c] = {'exit': r.returncode, 'signatures': sigs[:8], 'wall_s': round(time.time() - t0, 1),
                      'tail': r.stdout.strip().splitlines()[-1:]}
            print(sid, c, 'exit', r.returncode, sigs[:3])
    finally:
        run('git -C /repo checkout -- .')
        run('rm -f /verif/replays/*.json')
    meta.setdefault('checks_quick', {}).update(res)
    meta['caught_by'] = sorted(c for c, v in meta['checks_quick'].items() if v['exit'] == 1)
    json.dump(meta, open(os.path.join(dst, 'meta.json'), 'w'), indent=1)
    return 0


if __name__ == '__main__':
    if sys.argv[1] == 'confirm':
        sys.exit(confirm(sys.argv[2], sys.argv[3], sys.argv[4]))
    sys.exit(check(sys.argv[2], sys.argv[3:]))
