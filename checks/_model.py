"""Shared machinery for the model-level checks (C02, C04, C05, C07): generate a
world, run every schedule through the real builder, evaluate an oracle on each
final state."""
from __future__ import annotations

import hashlib
import json
from typing import Any, Callable, Dict, List, Optional, Sequence, Set, Tuple

from sim import schedule, simsystem, world as W
from sim.prng import Rng


def run_world(prop: str, world: Dict[str, Any], scheds: Sequence[Sequence[str]],
              oracle: Callable[[Dict[str, Any], Any], List[Tuple[str, str]]],
              tag_schedule_dependence: bool = True) -> Dict[str, Any]:
    texts = W.render_world(world)
    pkgs = {k: m['pkg'] for k, m in world['modules'].items()}
    violations: Dict[str, Dict[str, Any]] = {}
    inter: Set[str] = set()
    per_sig_scheds: Dict[str, int] = {}
    h = hashlib.blake2b(digest_size=8)
    nobj = 0
    probes: Dict[str, int] = {}
    options = None
    if world.get('privacy'):
        # privacy rules recorded with the world (patterns on the unique generated class names)
        from pydoctor.model import PrivacyClass
        options = simsystem.make_options(privacy=[(getattr(PrivacyClass, k), pat) for k, pat in world['privacy']])
    for sc in scheds:
        system, out, exc = simsystem.build(texts, pkgs, sc, options=options)
        inter.add(simsystem.interleaving_id(system.sim_log))
        h.update(simsystem.log_digest(system.sim_log).encode())
        for e in system.sim_log:
            if e[0] in ('move', 'dup', 'partial'):
                probes[e[0]] = probes.get(e[0], 0) + 1
        if exc is not None:
            viols = [(f'crash,{type(exc).__name__}', f'model build raised {type(exc).__name__}: {exc}')]
        else:
            nobj = max(nobj, len(system.allobjects))
            viols = oracle(world, system)
        seen_here = set()
        for suffix, detail in viols:
            sig = f'{prop}/{suffix}'
            h.update(sig.encode())
            if sig not in seen_here:
                seen_here.add(sig)
                per_sig_scheds[sig] = per_sig_scheds.get(sig, 0) + 1
            if sig not in violations:
                violations[sig] = {'signature': sig, 'detail': f'{detail} [schedule {list(sc)}]',
                                   'payload': {'world': world, 'schedules': [list(sc)]}}
    return {
        'violations': [violations[k] for k in sorted(violations)],
        'digest': h.hexdigest(),
        'stats': {'runs': len(scheds), 'interleavings': sorted(inter), 'objects': nobj,
                  'cyclic': bool(world['truth']['cyclic']), 'modules': len(world['modules']),
                  'probes': probes, 'exotic': world['truth'].get('exotic', []),
                  'schedule_dependent_violations': sum(1 for s, n in per_sig_scheds.items() if n < len(scheds))},
    }


def make_task_runner(prop: str, profiles: List[Tuple[str, float, Dict[str, Any]]],
                     oracle: Callable[[Dict[str, Any], Any], List[Tuple[str, str]]],
                     world_filter: Optional[Callable[[Dict[str, Any]], bool]] = None,
                     post: Optional[Callable[[Dict[str, Any], Dict[str, Any]], None]] = None):
    def run_task(task: Dict[str, Any]) -> Dict[str, Any]:
        rng = Rng(task['seed'], prop)
        name = rng.sub('profile').weighted([(n, w) for n, w, _ in profiles])
        over = next(o for n, _, o in profiles if n == name)
        world = None
        for attempt in range(20):
            w = W.gen_world(rng.sub('world').sub(attempt), W.profile(**over))
            if world_filter is None or world_filter(w):
                world = w
                break
        if world is None:
            return {'violations': [], 'digest': 'skipped', 'stats': {'runs': 0, 'interleavings': [], 'objects': 0, 'cyclic': False,
                                                                       'modules': 0, 'probes': {}, 'exotic': [], 'schedule_dependent_violations': 0,
                                                                       'profile': name, 'exhaustive': False, 'skipped': True}}
        scheds, exhaustive = schedule.schedules_for(world['modules'], rng.sub('sched'),
                                                    limit=task.get('limit', 120), nsample=task.get('nsample', 10))
        res = run_world(prop, world, scheds, oracle)
        res['stats']['profile'] = name
        res['stats']['exhaustive'] = exhaustive
        if post is not None:
            post(world, res)
        res['sample'] = {'profile': name, 'modules': W.render_world(world), 'schedules_run': len(scheds),
                         'first_schedule': list(scheds[0]), 'exhaustive': exhaustive}
        return res
    return run_task


def make_replay(prop: str, oracle: Callable[[Dict[str, Any], Any], List[Tuple[str, str]]]):
    def replay(payload: Dict[str, Any]) -> Dict[str, Any]:
        return run_world(prop, payload['world'], payload['schedules'], oracle)
    return replay


def base_coverage(stats: List[Dict[str, Any]], samples: List[Any], rule: str, components: Dict[str, Any]) -> Dict[str, Any]:
    inter: Set[str] = set()
    probes: Dict[str, int] = {}
    profs: Dict[str, int] = {}
    exotic: Dict[str, int] = {}
    for s in stats:
        inter.update(s['interleavings'])
        for k, v in s['probes'].items():
            probes[k] = probes.get(k, 0) + v
        profs[s.get('profile', '?')] = profs.get(s.get('profile', '?'), 0) + 1
        for e in s.get('exotic', []):
            exotic[e] = exotic.get(e, 0) + 1
    runs = sum(s['runs'] for s in stats)
    return {
        'evaluations': runs,
        'distinct_nontrivial': len(inter),
        'rule': rule,
        'samples': samples,
        'worlds': len([s for s in stats if not s.get('skipped')]),
        'exhaustive_worlds': sum(1 for s in stats if s.get('exhaustive')),
        'cyclic_worlds': sum(1 for s in stats if s['cyclic']),
        'worlds_by_profile': profs,
        'worlds_by_history_knob': exotic,
        'distinct_interleavings': len(inter),
        'probes': {'re-export_moves': probes.get('move', 0), 'duplicate_definitions_handled': probes.get('dup', 0),
                   'reads_of_half_built_modules': probes.get('partial', 0)},
        'faults_injected': {'schedule permutations': runs},
        'simulated_time': 'not applicable: no clock in the analysed code path',
        'components': components,
    }


COMPONENTS = {'real': ['pydoctor.model.System (process, processModule, getProcessedModule, addObject, handleDuplicate, reparent)',
                       'pydoctor.astbuilder', 'all default extensions incl. zopeinterface', 'post-processing (MRO, subclasses, zope implemented-by)'],
              'stub': ['SimSystem: recording-only subclass of model.System']}


def std_plan(prop: str, tier: str, seed: int, quick_n: int, thorough_n: int, quick_budget: float = 70, thorough_budget: float = 1200) -> Dict[str, Any]:
    from sim.prng import derive
    import os
    n = int(os.environ.get('VERIF_TASKS') or 0) or (quick_n if tier == 'quick' else thorough_n)
    tasks = [{'i': i, 'seed': derive(seed, prop, i), 'limit': 720 if tier == 'thorough' else 120,
              'nsample': 24 if tier == 'thorough' else 10} for i in range(n)]
    return {'tasks': tasks, 'budget_s': quick_budget if tier == 'quick' else thorough_budget, 'task_timeout': 120, 'selfcheck': 6}
