"""C04 (secondary claim) -- a name resolves to what Python would bind it to, or not at all.

Simulated dimension: S1.  Resolution happens *during* analysis (bases, aliases)
and afterwards; on-demand processing of imported modules is the mechanism meant
to make it independent of the schedule.  Oracle: the generator's binding ground
truth (validated against CPython by importing the world, sim/pytruth.py), under
every schedule.
"""
from __future__ import annotations

from typing import Any, Dict, List

from sim import oracles, pytruth
from . import _model

PROPERTY = 'C04'
LEVEL = 'exploration'
ASSUMPTIONS = [
    'acyclic generated projects, every definition globally uniquely named, each name bound once per scope (the quantifier of C04)',
    'ground truth = the bindings the generator recorded while choosing each import; cross-checked against CPython (import of the materialised world) in every task',
    '"always resolves" is demanded only for local names, names imported directly from the defining module, and attributes of a module alias whose module defines them',
]

PROFILES = [
    ('plain',     3, dict(reexport=0.0, roots=(1, 3), alias=0.4, class_imports=0.3, star=0.3)),
    ('reexport',  4, dict(reexport=0.6, roots=(1, 3), alias=0.3, class_imports=0.2)),
    ('consumers', 2, dict(reexport=0.7, roots=(2, 3), consumer_roots=True)),
    ('relative',  2, dict(reexport=0.3, relative=0.9, subpkg=0.8, roots=(1, 2))),
    ('nested-refs', 3, dict(reexport=0.4, roots=(1, 3), nested=0.7, nested_refs=0.8, alias=0.4, class_imports=0.2)),
    ('private',   2, dict(reexport=0.2, private_defs=0.4, star=0.6, own_all=0.7, roots=(1, 2))),
    ('classscope', 3, dict(reexport=0.2, alias_pool=True, class_imports=0.5, nested=0.5, max_bases=3, defs=(2, 4), roots=(1, 2),
                           method_pool=True)),
]


def world_ok(world: Dict[str, Any]) -> bool:
    return not world['truth']['cyclic'] and not world['truth']['exotic']


def oracle(world: Dict[str, Any], system: Any) -> List[Any]:
    return oracles.check_bindings(world, system) + oracles.check_class_attr_paths(world, system)


def post(world: Dict[str, Any], res: Dict[str, Any]) -> None:
    problems = pytruth.check_world(world)
    res['stats']['pytruth_checked'] = 1
    if problems:
        raise RuntimeError('generator ground truth disagrees with CPython: ' + '; '.join(problems[:5]))


run_task = _model.make_task_runner(PROPERTY, PROFILES, oracle, world_ok, post)
replay = _model.make_replay(PROPERTY, oracle)


def plan(tier: str, seed: int) -> Dict[str, Any]:
    return _model.std_plan(PROPERTY, tier, seed, 1500, 40000)


def minimise(v: Dict[str, Any]) -> Dict[str, Any]:
    from sim import minimise as M
    return M.minimise_world_violation(v, replay)


def coverage(stats: List[Dict[str, Any]], samples: List[Any]) -> Dict[str, Any]:
    cov = _model.base_coverage(
        stats, samples,
        'one evaluation = one (world, schedule) model build, then resolveName() of every name bound in every module and class '
        'namespace (and every attribute of every module alias) compared with the CPython-validated binding table; '
        'distinct = distinct interleaving ids',
        _model.COMPONENTS)
    cov['worlds_validated_against_cpython'] = sum(s.get('pytruth_checked', 0) for s in stats)
    return cov
