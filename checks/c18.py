"""C18 -- equal inputs give byte-identical output.

Simulated dimensions: S3 hash seed (fresh interpreter per run), S2 directory
listing order (os.listdir / os.scandir permuted per directory), S4 wall clock and
time zone (simulated now), S5 output-directory history (fresh / holding the
result of a previous run, possibly made under another hash seed and listing
order).  Sources, options and build time (SOURCE_DATE_EPOCH or --buildtime) are
the same in all runs of a world.  Oracle: recursive byte comparison of the
output trees.
"""
from __future__ import annotations

import os
import shutil
from typing import Any, Dict, List, Optional, Tuple

from sim import procrun, pytruth, world as W
from sim.prng import Rng, derive

PROPERTY = 'C18'
LEVEL = 'exploration'
ASSUMPTIONS = [
    'two runs inside one process are not compared (ChildTable.last_id and ExpandableItem.last_ExpandableItem_id are process-global counters; the property quantifies over hash seed, listing order and output-dir state, not process reuse)',
    'the order of the source paths on the command line is part of the input and is kept fixed',
    'listing permutations are applied at os.listdir / os.scandir (what pathlib.iterdir and importlib.resources use in CPython 3.12)',
]

DOCFORMATS = ['epytext', 'restructuredtext', 'google', 'numpy', 'plaintext']
THEMES = ['classic', 'readthedocs', 'base']
TESTPKG = (os.environ.get('VERIF_REPO') or '/repo') + '/pydoctor/test/testpackages'
REAL = ['allgames', 'basic', 'codeininit', 'cyclic_imports', 'cyclic_imports_base_classes', 'importingfrompackage',
        'interfaceallgames', 'interfaceclass', 'multipleinheritance', 'nestedconfusion', 'relativeimporttest',
        'reparented_module', 'reparenting_crash', 'reparenting_crash_alt', 'reparenting_follows_aliases', 'report_trigger',
        'syntax_error', 'modnamedafterbuiltin', 'package_module_name_clash']


def plan(tier: str, seed: int) -> Dict[str, Any]:
    n = int(os.environ.get('VERIF_TASKS') or 0) or (140 if tier == 'quick' else 3000)
    tasks = [{'i': i, 'seed': derive(seed, PROPERTY, i), 'variants': 5 if tier == 'quick' else 8} for i in range(n)]
    return {'tasks': tasks, 'budget_s': 80 if tier == 'quick' else 1800, 'task_timeout': 400, 'selfcheck': 2}


_WORDS = ['alpha', 'beta', 'gamma', 'delta', 'omega', 'kappa', 'sigma', 'theta', 'lambda', 'zeta', 'eta', 'iota', 'rho', 'tau', 'phi', 'chi', 'psi', 'nu', 'xi', 'pi']


def add_constants(files: Dict[str, str], rng: Rng) -> Dict[str, str]:
    """Module-level constants bound to literal collections (values whose Python-level iteration order depends on the hash
    seed: sets of strings / bytes / tuples, also nested), so that inferred types and rendered values are exercised."""
    out = dict(files)
    for path in sorted(files):
        r = rng.sub(path)
        if not path.endswith('.py') or not r.chance(0.4):
            continue
        lines = []
        for j in range(r.randint(1, 3)):
            rr = r.sub(j)
            n = rr.choice([3, 8, 17, 24, 40])
            elems = sorted({f'"{rr.choice(_WORDS)}-{rr.below(1000)}"' for _ in range(n)})
            rr.shuffle(elems)
            odd = rr.choice([None, 'b"raw"', 'None', '("a", "b")', '3', '2.5'])
            if odd is not None:
                elems.insert(rr.below(len(elems) + 1), odd)
            shape = rr.choice(['set', 'frozenset', 'dictofsets', 'list', 'tupleofsets'])
            body = ', '.join(elems)
            if shape == 'set':
                val = '{' + body + '}'
            elif shape == 'frozenset':
                val = 'frozenset({' + body + '})'
            elif shape == 'dictofsets':
                val = '{"k": {' + body + '}, "l": {"x", "y"}}'
            elif shape == 'list':
                val = '[' + body + ']'
            else:
                val = '({' + body + '}, {"p", "q", "r"})'
            lines.append(f'K{j}_TABLE = {val}\n\"\"\"A table of constants.\"\"\"\n')
        out[path] = files[path] + '\n' + ''.join(lines)
    return out


def make_case(rng: Rng) -> Dict[str, Any]:
    """A world (generated or a copy of real test packages) plus a command line."""
    kind = rng.sub('kind').weighted([('generated', 7), ('real', 3)])
    cfg: Dict[str, Any] = {'kind': kind}
    if kind == 'generated':
        prof = W.profile(reexport=0.5, roots=(1, 3), zope=0.1, fields=0.3, dup=0.1, nested=0.3,
                         cyclic=rng.sub('cyc').chance(0.2), subscript=0.2, case_twins=0.5)
        world = W.gen_world(rng.sub('world'), prof)
        cfg['files'] = add_constants(W.world_files(world), rng.sub('constants'))
        cfg['roots'] = [m for m in world['modules'] if '.' not in m]
        cfg['root_is_pkg'] = {m: world['modules'][m]['pkg'] for m in cfg['roots']}
    else:
        n = rng.sub('nreal').weighted([(1, 3), (2, 3), (3, 2)])
        cfg['real'] = sorted(rng.sub('real').sample(REAL, n))
        cfg['roots'] = cfg['real']
    o = rng.sub('opts')
    cfg['docformat'] = o.choice(DOCFORMATS) if kind == 'generated' else 'epytext'
    cfg['theme'] = o.weighted([('classic', 3), ('readthedocs', 2), ('base', 1)])
    cfg['project_name'] = o.choice([None, 'Proj', 'My <Project> & Co']) if len(cfg['roots']) > 1 else o.choice([None, 'Proj'])
    cfg['buildtime_via'] = o.choice(['SOURCE_DATE_EPOCH', '--buildtime'])
    cfg['epoch'] = 946684800 + o.below(1_500_000_000)
    extra: List[str] = []
    if o.chance(0.3):
        extra += ['--sidebar-expand-depth', str(o.randint(0, 3))]
    if o.chance(0.3):
        extra += ['--sidebar-toc-depth', str(o.randint(0, 4))]
    if o.chance(0.3):
        extra += ['--cls-member-order', o.choice(['alphabetical', 'source'])]
    if o.chance(0.3):
        extra += ['--mod-member-order', o.choice(['alphabetical', 'source'])]
    if o.chance(0.2):
        extra += ['--process-types']
    if o.chance(0.2):
        extra += ['--privacy', 'PRIVATE:**.f*', '--privacy', 'HIDDEN:**.v*']
    if o.chance(0.2):
        extra += ['-W']
    if o.chance(0.3):
        extra += [o.choice(['-q', '-v', '-vv'])]
    if o.chance(0.2):
        extra += ['--project-version', '1.2.3', '--project-url', 'https://example.invalid/']
    cfg['extra'] = extra
    cfg['roots_via'] = rng.sub('roots-via').weighted([('positional', 3), ('add-package', 1)])
    return cfg


def materialise(cfg: Dict[str, Any], root: str) -> List[str]:
    src = os.path.join(root, 'src')
    os.makedirs(src)
    paths = []
    if cfg['kind'] == 'generated':
        pytruth.write_tree(src, cfg['files'])
        for r in cfg['roots']:
            paths.append(os.path.join(src, r if cfg['root_is_pkg'][r] else r + '.py'))
    else:
        for r in cfg['real']:
            shutil.copytree(os.path.join(TESTPKG, r), os.path.join(src, r),
                            ignore=shutil.ignore_patterns('__pycache__', '*.pyc', '*.so', '*.c', '*.pyx', 'setup.py'))
            paths.append(os.path.join(src, r))
    return paths


def argv_for(cfg: Dict[str, Any], paths: List[str], out: str) -> List[str]:
    argv = ['--html-output', out, '--docformat', cfg['docformat'], '--theme', cfg['theme']]
    if cfg['project_name'] is not None:
        argv += ['--project-name', cfg['project_name']]
    if cfg['buildtime_via'] == '--buildtime':
        import datetime
        argv += ['--buildtime', datetime.datetime.utcfromtimestamp(cfg['epoch']).strftime('%Y-%m-%d %H:%M:%S')]
    argv += cfg['extra']
    if cfg.get('roots_via') == 'add-package':
        # the other documented way to name the sources (config files use it): one --add-package per root
        for pth in paths:
            argv += ['--add-package', pth]
    else:
        argv += paths
    return argv


TZS = ['UTC', 'Pacific/Kiritimati', 'America/Los_Angeles', 'Asia/Kolkata', 'Europe/Paris', 'Pacific/Pago_Pago']


def variant_plan(rng: Rng, k: int) -> List[Dict[str, Any]]:
    """Variants vary one dimension at a time first (so a difference can be attributed), then all at once."""
    def hs() -> int:
        return 1 + rng.sub('hs').sub(len(out)).below(2 ** 32 - 2)

    def now() -> float:
        return float(rng.sub('now').sub(len(out)).below(4_102_444_800))   # 1970 .. 2100
    out: List[Dict[str, Any]] = []
    out.append({'vary': 'hashseed', 'hashseed': hs()})
    out.append({'vary': 'listing', 'listing_seed': rng.sub('ls').below(2 ** 32)})
    out.append({'vary': 'clock', 'now': now(), 'tz': rng.sub('tz').choice(TZS)})
    out.append({'vary': 'rerun', 'history': 'rerun'})
    while len(out) < k:
        out.append({'vary': 'all', 'hashseed': hs(), 'listing_seed': rng.sub('ls').sub(len(out)).below(2 ** 32),
                    'now': now(), 'tz': rng.sub('tz').sub(len(out)).choice(TZS),
                    'history': rng.sub('h').sub(len(out)).choice(['fresh', 'rerun', 'rerun-other'])})
    return out[:k]


REF_NOW = 1_600_000_000.0


def _case_root(cfg: Dict[str, Any]) -> Tuple[str, Any]:
    """The scratch directory of a case is a function of the case: the absolute paths handed to pydoctor are part of
    its input (a program that hashes them behaves differently under another path), so a replay must see the very same
    strings.  An exclusive lock serialises two processes that happen to run the same case at the same time."""
    import fcntl
    import hashlib
    import json
    import tempfile
    key = hashlib.blake2b(json.dumps(cfg, sort_keys=True, default=str).encode(), digest_size=8).hexdigest()
    base = '/dev/shm' if os.path.isdir('/dev/shm') and os.access('/dev/shm', os.W_OK) else tempfile.gettempdir()
    lockdir = os.path.join(base, 'verif-c18-locks')
    os.makedirs(lockdir, exist_ok=True)
    lock = open(os.path.join(lockdir, key + '.lock'), 'w')
    fcntl.flock(lock, fcntl.LOCK_EX)
    root = os.path.join(base, f'verif-c18-{key}')
    shutil.rmtree(root, ignore_errors=True)
    os.makedirs(root)
    return root, lock


def run_case(cfg: Dict[str, Any], variants: List[Dict[str, Any]]) -> Dict[str, Any]:
    root, lock = _case_root(cfg)
    try:
        paths = materialise(cfg, root)
        sde = cfg['epoch'] if cfg['buildtime_via'] == 'SOURCE_DATE_EPOCH' else None

        def run(out: str, v: Dict[str, Any]) -> Dict[str, Any]:
            return procrun.run_pydoctor(argv_for(cfg, paths, out), root, hashseed=v.get('hashseed', 0),
                                        tz=v.get('tz', 'UTC'), listing_seed=v.get('listing_seed', -1),
                                        now=v.get('now', REF_NOW), source_date_epoch=sde)
        ref_out = os.path.join(root, 'out-ref')
        r0 = run(ref_out, {})
        stats = {'runs': 1, 'files': 0, 'exit_ref': r0['exit'], 'now_values': [REF_NOW], 'fired': {}}
        violations: Dict[str, Dict[str, Any]] = {}
        if r0['exit'] not in (0, 2, 3):
            # not this property's business (C01), but nothing to compare either
            return {'violations': [], 'digest': f'ref-exit-{r0["exit"]}', 'stats': dict(stats, skipped=1),
                    'sample': None}
        ref = procrun.tree_digest(ref_out)
        stats['files'] = len(ref)
        digest_parts = [str(sorted(ref.items()))]
        for vi, v in enumerate(variants):
            out = os.path.join(root, f'out-{vi}')
            hist = v.get('history', 'fresh')
            if hist == 'rerun':
                r1 = run(out, v)
                stats['runs'] += 1
            elif hist == 'rerun-other':
                r1 = run(out, {'hashseed': v['hashseed'] ^ 0x5bd1e995, 'listing_seed': (v.get('listing_seed') or 0) + 1,
                               'now': v.get('now'), 'tz': v.get('tz', 'UTC')})
                stats['runs'] += 1
            r = run(out, v)
            stats['runs'] += 1
            for dim in ('hashseed', 'listing_seed', 'now', 'history'):
                if dim in v and v.get(dim) not in (None, 'fresh'):
                    stats['fired'][dim] = stats['fired'].get(dim, 0) + 1
            if 'now' in v:
                stats['now_values'].append(v['now'])
            if not r.get('seam_stats', {}).get('listdir'):
                raise RuntimeError('listing seam did not fire')
            got = procrun.tree_digest(out)
            digest_parts.append(str(sorted(got.items())) + str(r['exit']))
            diffs = procrun.diff_trees(ref, got)
            if r['exit'] != r0['exit']:
                sig = f'{PROPERTY}/exit-status-differs,vary={v["vary"]}'
                violations.setdefault(sig, {'signature': sig, 'detail': f'exit {r0["exit"]} vs {r["exit"]} under {v}',
                                            'payload': {'case': cfg, 'variants': [v]}})
            if diffs:
                path, what = diffs[0]
                where = ''
                if what == 'differs' and ref[path].startswith('f:'):
                    fd = procrun.first_difference(os.path.join(ref_out, path), os.path.join(out, path))
                    where = fd.get('where', '')
                    detail = f'{path}: {fd}'
                else:
                    detail = f'{path}: {what}'
                sig = f'{PROPERTY}/tree-differs,vary={v["vary"]},file={_fileclass(path)},what={what},where={where},roots={min(len(cfg["roots"]), 2)},named={int(cfg["project_name"] is not None)}'
                violations.setdefault(sig, {
                    'signature': sig,
                    'detail': f'{len(diffs)} path(s) differ from the reference run under variant {v}; first: {detail}',
                    'payload': {'case': cfg, 'variants': [v]}})
        import hashlib
        return {'violations': [violations[k] for k in sorted(violations)],
                'digest': hashlib.blake2b('|'.join(digest_parts).encode(), digest_size=8).hexdigest(),
                'stats': stats,
                'sample': {'kind': cfg['kind'], 'roots': cfg['roots'], 'argv': argv_for(cfg, ['<src>/' + r for r in cfg['roots']], '<out>'),
                           'variants': variants, 'files_in_output': len(ref)}}
    finally:
        shutil.rmtree(root, ignore_errors=True)
        lock.close()      # (the lock file stays: removing it would race with a process waiting on it)


def _fileclass(path: str) -> str:
    if path.endswith('.html'):
        base = os.path.basename(path)
        if base in ('index.html', 'moduleIndex.html', 'classIndex.html', 'nameIndex.html', 'undoccedSummary.html', 'all-documents.html'):
            return base
        return 'page.html'
    return os.path.basename(path)


def run_task(task: Dict[str, Any]) -> Dict[str, Any]:
    rng = Rng(task['seed'], 'c18')
    cfg = make_case(rng.sub('case'))
    variants = variant_plan(rng.sub('variants'), task.get('variants', 5))
    return run_case(cfg, variants)


def replay(payload: Dict[str, Any]) -> Dict[str, Any]:
    return run_case(payload['case'], payload['variants'])


def coverage(stats: List[Dict[str, Any]], samples: List[Any]) -> Dict[str, Any]:
    stats = [s for s in stats if not s.get('skipped')]
    runs = sum(s['runs'] for s in stats)
    fired: Dict[str, int] = {}
    nows: List[float] = []
    for s in stats:
        for k, v in s['fired'].items():
            fired[k] = fired.get(k, 0) + v
        nows.extend(s['now_values'])
    import datetime
    return {
        'evaluations': runs,
        'distinct_nontrivial': sum(1 for s in stats if s['files'] > 10),
        'rule': 'one evaluation = one full pydoctor run (driver.main, fresh interpreter) writing an output tree; a world counts as '
                'non-trivial when its reference output has more than 10 files; every variant tree is compared byte for byte with the reference tree',
        'samples': [s for s in samples if s],
        'worlds': len(stats),
        'output_files_compared': sum(s['files'] * (s['runs'] - 1) for s in stats),
        'faults_injected': fired,
        'simulated_time_span': {'earliest': datetime.datetime.utcfromtimestamp(min(nows)).isoformat() if nows else None,
                                'latest': datetime.datetime.utcfromtimestamp(max(nows)).isoformat() if nows else None},
        'components': {'real': ['CPython start-up with the scheduled PYTHONHASHSEED', 'pydoctor.driver.main end to end (options, model, templatewriter, search index, inventory)'],
                       'stub': ['os.listdir / os.scandir wrappers (permute, never add or drop names)', 'datetime.now / time.time shim in pydoctor.model and pydoctor.driver']},
    }
