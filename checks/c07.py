"""C07 -- a re-exported object is documented once, where exported, and stays reachable.

Simulated dimension: S1 x re-export forms.  Oracle: the reference re-export
model recorded by the generator (the documented rule of docs/source/codedoc.rst)
for the location, and the binding ground truth for every reference that names
either location, under every schedule.
"""
from __future__ import annotations

from typing import Any, Dict, List

from sim import oracles, pytruth
from . import _model

PROPERTY = 'C07'
LEVEL = 'exploration'
ASSUMPTIONS = [
    'generated packages in which each object has at most one re-exporter (the quantifier of C07)',
    'consumers live inside the package or in another root (only then can the schedule analyse them before the re-exporter)',
    'references judged: import alias (resolveName), base class (Class.baseobjects), old and new qualified name (System.find_object), '
    'and - in the rendered batch - annotation and docstring cross-reference links',
]

PROFILES = [
    ('pkg',       4, dict(reexport=0.9, roots=(1, 2), private_mods=0.8, star=0.3)),
    ('consumers', 4, dict(reexport=0.9, roots=(2, 3), consumer_roots=True, private_mods=0.8, star=0.3)),
    ('nested',    2, dict(reexport=0.9, roots=(1, 3), nested=0.6, subpkg=0.8, relative=0.8)),
    ('cyclic-bottom', 3, dict(reexport=0.9, roots=(1, 2), cyclic=True, back_edge_bottom=True, imports_last=True, star=0.3,
                              private_mods=0.8, class_imports=0.0, tc_guard=0.0)),
    # the defining module also binds the re-exported name by an import (accelerator idiom: class X ... try: from ._speedups import X)
    ('shadow',    2, dict(reexport=0.9, roots=(1, 2), shadow_import=0.6, private_mods=0.8, star=0.2)),
    ('rebind',    3, dict(reexport=0.9, roots=(1, 2), rebind_same=0.6, star=0.6, imports=(1, 4), private_mods=0.8)),
]


def world_ok(world: Dict[str, Any]) -> bool:
    t = world['truth']
    if t['cyclic'] and not world['profile'].get('imports_last'):
        return False
    return not (set(t['exotic']) - {'shadow_import'}) and any(t['reexporters'].values())


def oracle(world: Dict[str, Any], system: Any) -> List[Any]:
    if world['truth']['cyclic']:
        # import cycles in projects where every module defines first and imports last: whichever module is entered
        # first, a module that is read while half built has already defined everything it defines itself, so a *direct*
        # re-export (from the defining module) finds its object in every order and the location rule applies unchanged.
        # (References are not judged here: binding truth is only recorded for acyclic worlds.)
        return oracles.check_reexports(world, system)
    return oracles.check_reexports(world, system) + oracles.check_references(world, system)


def post(world: Dict[str, Any], res: Dict[str, Any]) -> None:
    res['stats']['reexported_objects'] = sum(1 for v in world['truth']['reexporters'].values() if v)


run_task = _model.make_task_runner(PROPERTY, PROFILES, oracle, world_ok, post)
replay = _model.make_replay(PROPERTY, oracle)


def plan(tier: str, seed: int) -> Dict[str, Any]:
    return _model.std_plan(PROPERTY, tier, seed, 1500, 40000)


def minimise(v: Dict[str, Any]) -> Dict[str, Any]:
    from sim import minimise as M
    return M.minimise_world_violation(v, replay)


def coverage(stats: List[Dict[str, Any]], samples: List[Any]) -> Dict[str, Any]:
    cov = _model.base_coverage(
        stats, samples,
        'one evaluation = one (world, schedule) model build, then location of every definition and resolution of every reference '
        'to a re-exported object compared with the reference re-export model; distinct = distinct interleaving ids',
        _model.COMPONENTS)
    cov['reexported_objects'] = sum(s.get('reexported_objects', 0) for s in stats)
    return cov
