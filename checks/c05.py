"""C05 (secondary claim) -- inheritance is computed as Python computes it.

Simulated dimension: S1 -- which of the two base-resolution passes resolves a
base depends on the schedule.  Oracle: RefC3 (sim/pytruth.py, validated against
type.__mro__ by importing each consistent world) for the linearisation, member
lookup and docstring inheritance; a reported inconsistency where Python rejects
the hierarchy.  The exhaustive enumeration of all five-class hierarchies that
the quantifier mentions is bounded model checking and is not attempted.
"""
from __future__ import annotations

from typing import Any, Dict, List

from sim import oracles, pytruth
from . import _model

PROPERTY = 'C05'
LEVEL = 'exploration'
ASSUMPTIONS = [
    'hierarchies are sampled (3-12 classes over 2-6 modules), not enumerated',
    'a class is judged only if all its bases, transitively, are reached by routes that C04 guarantees to resolve',
    'RefC3 is cross-checked against CPython type.__mro__ for every consistent world',
]

PROFILES = [
    ('hier',         4, dict(reexport=0.0, method_pool=True, defs=(2, 5), roots=(1, 2), nested=0.0, subscript=0.3, star=0.0, alias=0.0)),
    ('hier-bad',     3, dict(reexport=0.0, method_pool=True, defs=(2, 5), roots=(1, 2), nested=0.0, inconsistent=0.5, star=0.0, alias=0.0)),
    ('hier-hidden',  2, dict(reexport=0.0, method_pool=True, defs=(2, 5), roots=(1, 2), nested=0.0, star=0.0, alias=0.0, hide_overrides=0.5)),
    ('hier-wide',    2, dict(reexport=0.0, method_pool=True, defs=(3, 6), children=(3, 5), roots=(1, 3), nested=0.1, subscript=0.2)),
    ('hier-3bases',  4, dict(reexport=0.0, method_pool=True, defs=(3, 6), children=(2, 4), roots=(1, 2), nested=0.0, max_bases=3,
                             star=0.0, alias=0.0, imports=(1, 3))),
    ('hier-3bases-bad', 1, dict(reexport=0.0, method_pool=True, defs=(3, 6), children=(2, 4), roots=(1, 2), nested=0.0, max_bases=3,
                                inconsistent=0.4, star=0.0, alias=0.0)),
]


def world_ok(world: Dict[str, Any]) -> bool:
    return not world['truth']['cyclic'] and not world['truth']['exotic']


def oracle(world: Dict[str, Any], system: Any) -> List[Any]:
    return oracles.check_mro(world, system)


def post(world: Dict[str, Any], res: Dict[str, Any]) -> None:
    inconsistent = any(pytruth.ref_mro(world, int(i)) is None
                       for i, d in world['truth']['defs'].items() if d['kind'] == 'class')
    res['stats']['inconsistent_world'] = int(inconsistent)
    res['stats']['classes'] = sum(1 for d in world['truth']['defs'].values() if d['kind'] == 'class')
    if not inconsistent:
        problems = pytruth.check_world(world)
        res['stats']['pytruth_checked'] = 1
        if problems:
            raise RuntimeError('RefC3 / ground truth disagrees with CPython: ' + '; '.join(problems[:5]))


run_task = _model.make_task_runner(PROPERTY, PROFILES, oracle, world_ok, post)
replay = _model.make_replay(PROPERTY, oracle)


def plan(tier: str, seed: int) -> Dict[str, Any]:
    return _model.std_plan(PROPERTY, tier, seed, 1500, 40000)


def minimise(v: Dict[str, Any]) -> Dict[str, Any]:
    from sim import minimise as M
    return M.minimise_world_violation(v, replay)


def coverage(stats: List[Dict[str, Any]], samples: List[Any]) -> Dict[str, Any]:
    cov = _model.base_coverage(
        stats, samples,
        'one evaluation = one (world, schedule) model build, then Class.mro(), Class.find() and get_docstring() of every judged class '
        'compared with RefC3; distinct = distinct interleaving ids',
        _model.COMPONENTS)
    cov['worlds_validated_against_cpython'] = sum(s.get('pytruth_checked', 0) for s in stats)
    cov['worlds_with_hierarchy_python_rejects'] = sum(s.get('inconsistent_world', 0) for s in stats)
    cov['classes'] = sum(s.get('classes', 0) for s in stats)
    return cov
