"""C17 -- written inventories read back faithfully; malformed remote ones are survivable.

A two-party simulation.  Producer: pydoctor documents world A and writes
objects.inv.  Network: SimNet serves those bytes (and synthetic inventories with
names containing spaces, '$' shorthands, non-Python domains) under a seeded
fault plan.  Consumer: a second pydoctor (driver.get_system) with
--intersphinx http://sim.invalid/a/objects.inv through the real prepareCache ->
CacheControl -> requests -> (simulated pool).  Sphinx's own InventoryFile reader
is the third, independent party for the round trip.
"""
from __future__ import annotations

import hashlib
import io
import contextlib
import os
import shutil
import urllib.parse
from typing import Any, Dict, List, Optional, Set, Tuple

from sim import net, pytruth, schedule, simsystem, world as W
from sim.prng import Rng, derive

PROPERTY = 'C17'
LEVEL = 'fault_enumeration'
ASSUMPTIONS = [
    'cache-expiry semantics (--intersphinx-cache-max-age) are not part of the statement and are not judged; the cache directory is only a carrier of history',
    'whether a transfer as a whole is usable is decided by the harness on the bytes actually delivered (strip leading # lines, zlib, UTF-8)',
    'for line-level damage no report is demanded (non-Python lines are documented as silently ignored; readers may differ on mangled lines); damaged lines may be skipped or resolve to anything, never raise',
    'expected set of the round trip = objects reachable from the roots whose isVisible is true (pydoctor model), name -> Documentable.url',
]

URL = 'http://sim.invalid/a/objects.inv'
BASE = 'http://sim.invalid/a'


def plan(tier: str, seed: int) -> Dict[str, Any]:
    n = int(os.environ.get('VERIF_TASKS') or 0) or (1200 if tier == 'quick' else 30000)
    tasks = [{'i': i, 'seed': derive(seed, PROPERTY, i), 'faults': 40 if tier == 'quick' else 60,
              'enumerate': tier == 'thorough' and i % 20 == 0,
              'roundtrip': i % 4 == 0} for i in range(n)]
    return {'tasks': tasks, 'budget_s': 80 if tier == 'quick' else 1800, 'task_timeout': 300 if tier == 'quick' else 1200, 'selfcheck': 3}


# --------------------------------------------------------------------------
# producer

def produce(rng: Rng, render: bool, root: str) -> Dict[str, Any]:
    """Document world A; return inventory bytes and what it must contain."""
    prof = W.profile(reexport=0.5, roots=(1, 2), nested=0.4, fields=0.3, dup=0.15, star=0.2)
    world = W.gen_world(rng.sub('world'), prof)
    privacy = []
    if rng.sub('priv').chance(0.6):
        privacy = ['--privacy', 'HIDDEN:**.f*', '--privacy', 'PRIVATE:**.v*']
        if rng.sub('priv2').chance(0.5):
            privacy += ['--privacy', 'HIDDEN:**.C1*']
    src = os.path.join(root, 'src')
    pytruth.write_tree(src, W.world_files(world))
    roots = [m for m in world['modules'] if '.' not in m]
    paths = [os.path.join(src, W.modpath(r, world['modules'][r]['pkg']).replace('/__init__.py', '')) for r in roots]
    out = os.path.join(root, 'out')
    argv = ['--html-output', out, '--project-name', 'A', '-q'] + privacy + paths
    if not render:
        argv = ['--make-intersphinx'] + argv
    cwd = os.path.join(root, 'cwd')
    os.makedirs(cwd, exist_ok=True)
    old = os.getcwd()
    os.chdir(cwd)
    try:
        res = simsystem.run_main(argv)
    finally:
        os.chdir(old)
    if res['exc'] is not None or res['exit'] not in (0, 2, 3):
        raise RuntimeError(f'producer run failed: {res["exc"]} {res["exit"]} {res["stdout"][-500:]}')
    system = res['system']
    expected: Dict[str, str] = {}
    stack = list(system.rootobjects)
    while stack:
        o = stack.pop()
        if not o.isVisible:
            continue
        expected[o.fullName()] = o.url
        stack.extend(o.contents.values())
    with open(os.path.join(out, 'objects.inv'), 'rb') as f:
        inv = f.read()
    return {'inv': inv, 'expected': expected, 'out': out, 'world': world, 'rendered': render,
            'hidden': sum(1 for o in system.allobjects.values() if not o.isVisible)}


def synthetic_inventory(rng: Rng) -> Tuple[bytes, List[str]]:
    lines = []
    n = rng.randint(3, 14)
    for i in range(n):
        kind = rng.weighted([('py', 6), ('space', 2), ('dollar', 2), ('nonpy', 2), ('dispname', 1)])
        name = f'ext.mod{rng.below(4)}.Name{i}'
        if kind == 'py':
            lines.append(f'{name} py:{rng.choice(["class", "function", "method", "module", "attribute", "data", "exception"])} {rng.choice(["1", "-1", "0"])} api/{name}.html -')
        elif kind == 'space':
            lines.append(f'ext spaced name{i} py:class 1 spaced{i}.html -')
        elif kind == 'dollar':
            # the '$' shorthand stands for the name wherever the location merely ENDS with it
            lines.append(f'{name} py:function 1 ' + rng.choice(['api.html#$', 'library/x.html#module-$', 'ref/$', 'a.html#pre.$']) + ' -')
        elif kind == 'nonpy':
            lines.append(f'{rng.choice(["some label", "term-x", "cmdoption-v"])}{i} {rng.choice(["std:label", "std:term", "c:function", "js:class", "std:doc"])} -1 page{i}.html#$ Some Title {i}')
        else:
            lines.append(f'{name} py:class 1 api/{name}.html Display Name With Spaces')
    return net.build_inventory(lines), lines


# --------------------------------------------------------------------------
# consumer

def consume(inv_bytes: Optional[bytes], fault: Optional[Dict[str, Any]], refs: List[str], cache_state: str,
            root: str, full_main: bool = False, consumer_root: Optional[str] = None) -> Dict[str, Any]:
    """Run the consumer pydoctor against the simulated network."""
    from pydoctor import driver
    from pydoctor.options import Options
    simnet = net.SimNet()
    if inv_bytes is not None:
        simnet.add('/a/objects.inv', inv_bytes, fault)
    cache_dir = os.path.join(root, 'cache')
    os.makedirs(cache_dir, exist_ok=True)
    if cache_state == 'corrupt':
        # what a crashed previous run may have left in the cache directory
        from cachecontrol.caches.file_cache import FileCache, url_to_file_path
        from cachecontrol.controller import CacheController
        fc = FileCache(cache_dir)
        key = CacheController.cache_url(URL)
        p = url_to_file_path(key, fc)
        os.makedirs(os.path.dirname(p), exist_ok=True)
        with open(p, 'wb') as f:
            f.write(b'cc=4,\x00\xff garbage left by a torn write')
    src = os.path.join(root, 'bsrc')
    os.makedirs(src, exist_ok=True)
    doc = ' '.join(f'L{{{r}}}' for r in refs if _xref_safe(r))
    text = f'"""Consumer module. {doc}"""\n\ndef user():\n    """Uses {doc}"""\n'
    if consumer_root:
        # the consumer is a package that shares its top-level name with names of the inventory (a distribution split
        # over several projects, a plug-in living in its host's package)
        os.makedirs(os.path.join(src, consumer_root), exist_ok=True)
        target = os.path.join(src, consumer_root)
        with open(os.path.join(target, '__init__.py'), 'w') as f:
            f.write(text)
    else:
        target = os.path.join(src, 'bmod.py')
        with open(target, 'w') as f:
            f.write(text)
    argv = ['--intersphinx', URL, '--intersphinx-cache-path', cache_dir, '--system-class', 'sim.simsystem.MainSimSystem',
            '--html-output', os.path.join(root, 'bout'), '--project-name', 'B', target]
    if cache_state == 'disabled':
        argv = ['--disable-intersphinx-cache'] + argv
    buf = io.StringIO()
    res: Dict[str, Any] = {'exc': None, 'system': None, 'exit': None}
    cwd = os.path.join(root, 'bcwd')
    os.makedirs(cwd, exist_ok=True)
    old = os.getcwd()
    os.chdir(cwd)
    try:
        with net.installed(simnet), contextlib.redirect_stdout(buf), contextlib.redirect_stderr(buf):
            try:
                if full_main:
                    del simsystem.LAST_SYSTEM[:]
                    res['exit'] = driver.main(argv)
                    res['system'] = simsystem.LAST_SYSTEM[-1] if simsystem.LAST_SYSTEM else None
                else:
                    res['system'] = driver.get_system(Options.from_args(argv))
            except BaseException as e:
                import traceback
                res['exc'] = (type(e).__name__, str(e)[:300], traceback.format_exc()[-1800:])
    finally:
        os.chdir(old)
    res['stdout'] = buf.getvalue()
    res['netlog'] = simnet.log
    return res


def _xref_safe(name: str) -> bool:
    return all(c.isalnum() or c in '._' for c in name) and name[:1].isalpha()


def delivered_bytes(inv: Optional[bytes], fault: Optional[Dict[str, Any]]) -> Optional[bytes]:
    """Harness-side model of what reaches the consumer as the body (None = nothing)."""
    if inv is None:
        return None
    k = (fault or {}).get('kind', 'none')
    if k in ('net.reset_midway', 'net.short_content_length'):
        # the connection dies only if the cut lies inside the body
        return None if fault['at'] < len(inv) else inv
    if k in ('net.drop', 'net.timeout', 'net.redirect_loop', 'net.bad_content_encoding'):
        return None
    if k == 'net.http_error':
        return b'<html>error page</html>'
    if k == 'net.empty':
        return b''
    return inv


# --------------------------------------------------------------------------

def judge_fault_run(orig_lines: List[str], sent: Optional[bytes], fault: Optional[Dict[str, Any]],
                    damaged_lines: Set[int], res: Dict[str, Any], tag: str, only_survival: bool = False) -> List[Tuple[str, str]]:
    viols: List[Tuple[str, str]] = []
    if res['exc'] is not None:
        exc = res['exc']
        viols.append((f'aborted,exc={exc[0]},fault={tag}', f'consumer raised {exc[0]}: {exc[1]}\n{exc[2]}'))
        return viols
    if only_survival:
        # a second run may be served from the cache the first one filled: what it sees is not modelled
        return viols
    system = res['system']
    got = delivered_bytes(sent, fault)
    lines = net.harness_decode(got)
    sphinx_msgs = [m for (sec, m, th) in system.sim_msgs if sec == 'sphinx' and th == -1]
    if lines is None:
        if not sphinx_msgs:
            viols.append((f'unusable-transfer-not-reported,fault={tag}', f'the transfer was unusable ({fault}) but no message of section sphinx was logged'))
        return viols
    # (c) every line the plan did not touch resolves
    # untouched = delivered lines whose text is exactly a line of the original inventory
    orig_set = set(orig_lines)
    damaged_names = set()
    for l in lines:
        if l not in orig_set:
            p = net.ref_parse_line(l)
            damaged_names.add(p[0] if p else l.split(' ')[0])
            damaged_names.add(l.split(' ')[0])
    last: Dict[str, str] = {}
    for l in lines:
        if l in orig_set:
            p = net.ref_parse_line(l)
            if p is None:
                continue
            name, typ, prio, uri, disp = p
            if typ.startswith('py:'):
                last[name] = uri
    for name, uri in sorted(last.items()):
        if name in damaged_names:
            continue
        want = f'{BASE}/{net.expand_uri(name, uri)}'
        link = system.intersphinx.getLink(name)
        if link != want:
            viols.append((f'usable-line-does-not-resolve,fault={tag}', f'getLink({name!r}) -> {link!r}, expected {want!r}; fault {fault}, damaged lines {sorted(damaged_lines)}'))
            break
    # the same through the linker of the consumer (what docstring references, base classes and annotations use)
    ctx = system.rootobjects[0] if system.rootobjects else None
    if ctx is not None and not viols:
        shared = int(any(n.split('.')[0] in system.root_names for n in last))
        for name, uri in sorted(last.items()):
            if name in damaged_names or name in system.allobjects or not _xref_safe(name):
                continue
            want = f'{BASE}/{net.expand_uri(name, uri)}'
            try:
                tag_ = ctx.docstring_linker.link_to(name, name)
                href = getattr(tag_, 'attributes', {}).get('href')
            except Exception as e:
                href = f'<{type(e).__name__}: {e}>'
            if href != want:
                viols.append((f'usable-line-not-linked,fault={tag},shared_root={shared}',
                              f'link_to({name!r}) from {ctx.fullName()!r} gives href {href!r}, expected {want!r} (getLink resolves it); fault {fault}'))
                break
    return viols


def line_faults(rng: Rng, lines: List[str]) -> Tuple[List[str], Set[int], List[Dict[str, Any]]]:
    """Apply <= 3 line-level faults; returns (new lines, indexes of damaged lines in the new list, plan)."""
    out = list(lines)
    damaged: Set[int] = set()
    plan = []
    many = rng.sub('many').chance(0.15)
    if many:
        # a badly damaged file: ten to thirty junk / mangled lines spread between the good ones
        k = rng.sub('many-k').randint(10, 30)
        for j in range(k):
            r = rng.sub('m').sub(j)
            i = r.below(len(out) + 1)
            junk = r.choice(['', 'x', '1 2 3', 'a py:class', 'b py:class one two', 'name', '\t', 'c py:function 1', ' leading'])
            out.insert(i, junk)
            damaged = {d + 1 if d >= i else d for d in damaged} | {i}
        plan.append({'kind': 'inv.many_bad', 'count': k})
    for j in range(0 if many else rng.randint(1, 3)):
        r = rng.sub(j)
        kind = r.weighted([('inv.line_mangle', 6), ('inv.line_dup', 1), ('inv.line_reorder', 1), ('inv.nonpy', 1)])
        if not out:
            break
        i = r.below(len(out))
        if kind == 'inv.line_mangle':
            op = r.choice(net.MANGLE_OPS)
            out[i] = net.mangle_line(out[i], op, r)
            damaged.add(i)
            plan.append({'kind': kind, 'line': i, 'op': op})
        elif kind == 'inv.line_dup':
            out.insert(i, out[i])
            damaged = {d + 1 if d >= i else d for d in damaged}
            plan.append({'kind': kind, 'line': i})
        elif kind == 'inv.line_reorder':
            k = r.below(len(out))
            out[i], out[k] = out[k], out[i]
            if (i in damaged) != (k in damaged):
                damaged ^= {i, k}
            plan.append({'kind': kind, 'lines': [i, k]})
        else:
            out.insert(i, f'label{j} std:label -1 page.html#$ A Label')
            damaged = {d + 1 if d >= i else d for d in damaged}
            plan.append({'kind': kind, 'line': i})
    return out, damaged, plan


def run_fault(base_lines: List[str], plan: Dict[str, Any], refs: List[str]) -> Tuple[List[Tuple[str, str]], Dict[str, Any]]:
    """One consumer run under one fault plan (explicit, replayable)."""
    root = pytruth.scratch_dir('verif-c17-')
    try:
        lines = plan.get('lines', base_lines)
        damaged = set(plan.get('damaged', []))
        inv = net.build_inventory(lines)
        fault = plan.get('transfer')
        sent: Optional[bytes] = inv
        if fault is not None:
            sent = net.apply_payload_fault(inv, fault)
        if plan.get('unrouted'):
            sent = None
        res = consume(sent, fault, refs, plan.get('cache', 'empty'), root, full_main=plan.get('full_main', False),
                      consumer_root=plan.get('consumer_root'))
        if plan.get('second_run') and res['exc'] is None:
            # history: the same consumer again, now with whatever the first run left in the cache
            res = consume(sent, plan.get('second_fault', fault), refs, 'keep', root, consumer_root=plan.get('consumer_root'))
            fault = plan.get('second_fault', fault)
        tag = (fault or {}).get('kind', 'none') if fault else ('line' if plan.get('line_plan') else 'none')
        if plan.get('cache') == 'corrupt':
            tag += ',cache=corrupt'
        # a reset exactly at the end of the body is reported or not depending on whether the client reads once more: either is fine
        boundary = bool(fault and fault.get('kind') in ('net.reset_midway', 'net.short_content_length') and sent is not None
                        and fault['at'] == len(sent))
        viols = judge_fault_run(base_lines, sent, fault, damaged, res, tag,
                                only_survival=bool(plan.get('second_run')) or boundary)
        info = {'fired': [(fault or {}).get('kind')] if fault else [p['kind'] for p in plan.get('line_plan', [])],
                'usable': net.harness_decode(delivered_bytes(sent, fault)) is not None,
                'cut_in_zlib': bool(fault and fault.get('kind') == 'net.truncate' and fault['at'] > len(inv) - len(net.split_inventory(inv)[1])),
                'space_name': any(' ' in (net.ref_parse_line(l) or ('',))[0] for l in lines)}
        return viols, info
    finally:
        shutil.rmtree(root, ignore_errors=True)


def roundtrip(rng: Rng) -> Tuple[List[Tuple[str, str]], Dict[str, Any]]:
    root = pytruth.scratch_dir('verif-c17rt-')
    viols: List[Tuple[str, str]] = []
    try:
        prod = produce(rng.sub('prod'), True, os.path.join(root, 'A'))
        expected = prod['expected']
        # pydoctor's own reader, through the real cache + requests path
        res = consume(prod['inv'], None, list(expected)[:6], 'empty', os.path.join(root, 'B'), full_main=rng.sub('fm').chance(0.3))
        if res['exc'] is not None:
            viols.append((f'roundtrip-aborted,exc={res["exc"][0]}', str(res['exc'])))
            return viols, {'objects': len(expected)}
        links = res['system'].intersphinx._links
        got = {k: v[1] for k, v in links.items()}
        if set(got) != set(expected):
            missing = sorted(set(expected) - set(got))[:5]
            extra = sorted(set(got) - set(expected))[:5]
            viols.append((f'roundtrip-names,missing={int(bool(missing))},extra={int(bool(extra))}', f'missing {missing} extra {extra}'))
        for name in sorted(set(got) & set(expected)):
            if got[name] != expected[name]:
                viols.append(('roundtrip-location', f'{name}: inventory says {got[name]!r}, documented at {expected[name]!r}'))
                break
        # every target exists in the producer's output
        for name, url in sorted(expected.items()):
            page, _, frag = url.partition('#')
            path = os.path.join(prod['out'], urllib.parse.unquote(page))
            if not os.path.exists(path):
                viols.append(('roundtrip-page-missing', f'{name} -> {url}: page was not written'))
                break
            if frag:
                with open(path, encoding='utf-8') as f:
                    html = f.read()
                anchor = urllib.parse.unquote(frag)
                if f'name="{anchor}"' not in html and f'id="{anchor}"' not in html:
                    viols.append(('roundtrip-anchor-missing', f'{name} -> {url}: no anchor {anchor!r} on the page'))
                    break
        # exactly one line per object
        lines = net.harness_decode(prod['inv']) or []
        names = [(net.ref_parse_line(l) or (l,))[0] for l in lines]
        if len(names) != len(set(names)):
            dup = sorted({n for n in names if names.count(n) > 1})[:3]
            viols.append(('roundtrip-duplicate-entry', f'names listed more than once: {dup}'))
        # Sphinx's reader
        try:
            from sphinx.util.inventory import InventoryFile
            invdata = InventoryFile.loads(prod['inv'], uri=BASE + '/')
            sph: Dict[str, str] = {}
            data = getattr(invdata, 'data', invdata)
            for typ, items in data.items():
                for n, item in items.items():
                    uri = item.uri if hasattr(item, 'uri') else item[2]
                    sph[n] = uri
            if set(sph) != set(expected):
                viols.append(('roundtrip-sphinx-names', f'sphinx read {len(sph)} names, expected {len(expected)}: missing {sorted(set(expected) - set(sph))[:5]} extra {sorted(set(sph) - set(expected))[:5]}'))
            for n in sorted(set(sph) & set(expected)):
                if sph[n] != BASE + '/' + expected[n]:
                    viols.append(('roundtrip-sphinx-location', f'{n}: sphinx {sph[n]!r} expected {BASE + "/" + expected[n]!r}'))
                    break
            sphinx_ok = 1
        except ImportError:
            sphinx_ok = 0
        return viols, {'objects': len(expected), 'hidden': prod['hidden'], 'sphinx': sphinx_ok, 'inv': prod['inv'], 'expected': expected}
    finally:
        shutil.rmtree(root, ignore_errors=True)


def run_task(task: Dict[str, Any]) -> Dict[str, Any]:
    rng = Rng(task['seed'], 'c17')
    violations: Dict[str, Dict[str, Any]] = {}
    h = hashlib.blake2b(digest_size=8)
    stats: Dict[str, Any] = {'runs': 0, 'fired': {}, 'roundtrips': 0, 'objects': 0, 'hidden': 0, 'sphinx': 0,
                             'unusable': 0, 'cut_in_zlib': 0, 'space_name': 0}

    def record(viols: List[Tuple[str, str]], payload: Dict[str, Any]) -> None:
        for suffix, detail in viols:
            sig = f'{PROPERTY}/{suffix}'
            h.update(sig.encode())
            violations.setdefault(sig, {'signature': sig, 'detail': detail, 'payload': payload})

    base_lines: List[str]
    if task.get('roundtrip'):
        viols, info = roundtrip(rng.sub('rt'))
        stats['runs'] += 1
        stats['roundtrips'] += 1
        stats['objects'] += info.get('objects', 0)
        stats['hidden'] += info.get('hidden', 0)
        stats['sphinx'] += info.get('sphinx', 0)
        record(viols, {'mode': 'roundtrip', 'seed': task['seed']})
        base_lines = net.harness_decode(info['inv']) if info.get('inv') else None   # type: ignore[assignment]
        if not base_lines:
            _, base_lines = synthetic_inventory(rng.sub('syn'))
    else:
        _, base_lines = synthetic_inventory(rng.sub('syn'))
    refs = [p[0] for p in (net.ref_parse_line(l) for l in base_lines) if p and p[1].startswith('py:')][:5]
    plans: List[Dict[str, Any]] = []
    inv0 = net.build_inventory(base_lines)
    for j in range(task.get('faults', 10)):
        r = rng.sub('fault').sub(j)
        if r.chance(0.5):
            kind = r.choice(net.TRANSFER_KINDS)
            p: Dict[str, Any] = {'transfer': net.plan_transfer_fault(r.sub('p'), inv0, kind)}
        else:
            lines, damaged, lp = line_faults(r.sub('l'), base_lines)
            p = {'lines': lines, 'damaged': sorted(damaged), 'line_plan': lp}
        p['cache'] = r.sub('cache').weighted([('empty', 6), ('corrupt', 1), ('disabled', 1)])
        if r.sub('second').chance(0.15):
            p['second_run'] = True
            p['second_fault'] = net.plan_transfer_fault(r.sub('p2'), inv0, r.sub('k2').choice(net.TRANSFER_KINDS))
        if r.sub('main').chance(0.1):
            p['full_main'] = True
        if r.sub('croot?').chance(0.35):
            heads = sorted({x.split('.')[0] for x in refs if '.' in x and x.split('.')[0].isidentifier()})
            if heads:
                p['consumer_root'] = r.sub('croot').choice(heads)
        plans.append(p)
    plans.append({'unrouted': True, 'transfer': {'kind': 'net.http_error', 'status': 404}})
    if task.get('enumerate') and len(inv0) <= 2048:
        for off in range(len(inv0) + 1):
            plans.append({'transfer': {'kind': 'net.truncate', 'at': off}})
        hl = len(inv0) - len(net.split_inventory(inv0)[1])
        for off in range(min(len(inv0), hl + 64)):
            for bit in (0, 7):
                plans.append({'transfer': {'kind': 'net.bitflip', 'flips': [[off, bit]]}})
    for p in plans:
        viols, info = run_fault(base_lines, p, refs)
        stats['runs'] += 1
        for k in info['fired']:
            if k:
                stats['fired'][k] = stats['fired'].get(k, 0) + 1
        stats['unusable'] += 0 if info['usable'] else 1
        stats['cut_in_zlib'] += int(info['cut_in_zlib'])
        stats['space_name'] += int(info['space_name'])
        h.update(repr(sorted(s for s, _ in viols)).encode())
        record(viols, {'mode': 'fault', 'base_lines': base_lines, 'plan': p, 'refs': refs})
    return {'violations': [violations[k] for k in sorted(violations)], 'digest': h.hexdigest(), 'stats': stats,
            'sample': {'inventory_lines': base_lines[:8], 'fault_plans': [{k: v for k, v in p.items() if k != 'lines'} for p in plans[:4]]}}


def replay(payload: Dict[str, Any]) -> Dict[str, Any]:
    if payload['mode'] == 'roundtrip':
        viols, _ = roundtrip(Rng(payload['seed'], 'c17').sub('rt'))
        pl = payload
    else:
        viols, _ = run_fault(payload['base_lines'], payload['plan'], payload['refs'])
        pl = payload
    out = {}
    for suffix, detail in viols:
        sig = f'{PROPERTY}/{suffix}'
        out.setdefault(sig, {'signature': sig, 'detail': detail, 'payload': pl})
    return {'violations': list(out.values()), 'digest': '', 'stats': {}}


def coverage(stats: List[Dict[str, Any]], samples: List[Any]) -> Dict[str, Any]:
    runs = sum(s['runs'] for s in stats)
    fired: Dict[str, int] = {}
    for s in stats:
        for k, v in s['fired'].items():
            fired[k] = fired.get(k, 0) + v
    return {
        'evaluations': runs,
        'distinct_nontrivial': sum(1 for k, v in fired.items() if v > 0) + sum(s['roundtrips'] for s in stats),
        'rule': 'one evaluation = one consumer run (real prepareCache/CacheControl/requests over the simulated pool, then SphinxInventory.update) under one '
                'explicit fault plan, or one producer+consumer+Sphinx round trip; counted distinct = fault kinds that actually fired plus round trips',
        'samples': samples,
        'faults_fired': fired,
        'round_trips': sum(s['roundtrips'] for s in stats),
        'round_trip_objects': sum(s['objects'] for s in stats),
        'round_trip_hidden_objects_in_producer': sum(s['hidden'] for s in stats),
        'round_trips_also_read_by_sphinx': sum(s['sphinx'] for s in stats),
        'probes': {'transfer_unusable_as_a_whole': sum(s['unusable'] for s in stats),
                   'truncation_inside_the_zlib_stream': sum(s['cut_in_zlib'] for s in stats),
                   'inventory_with_a_space_in_a_name_column': sum(s['space_name'] for s in stats)},
        'simulated_time': 'not judged (cache expiry is outside the statement)',
        'components': {'real': ['pydoctor.driver.get_system / main', 'pydoctor.sphinx (prepareCache, IntersphinxCache, SphinxInventory, SphinxInventoryWriter)',
                                'requests.Session + HTTPAdapter.send', 'cachecontrol.CacheControl + FileCache', 'urllib3.response.HTTPResponse', 'sphinx.util.inventory.InventoryFile (third reader)'],
                       'stub': ['SimPool/SimNet instead of a urllib3 connection pool (no sockets)', 'MainSimSystem recording subclass']},
    }
