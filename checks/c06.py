"""C06 -- the result does not depend on the order in which modules are analysed.

Simulated dimension: S1, the module processing schedule (order of
``addModuleString`` registrations = ``System.unprocessed_modules``), which decides
the interleaving of module analyses (on-demand processing, reads of half-built
modules, re-export moves out of half-built modules).

Oracle: cross-schedule equality of a canonical dump keyed by object identity.
"""
from __future__ import annotations

import hashlib
import json
from typing import Any, Dict, Iterable, List, Optional, Sequence, Set, Tuple

from sim import schedule, simsystem, world as W
from sim.prng import Rng, derive

PROPERTY = 'C06'
LEVEL = 'exploration'
ASSUMPTIONS = [
    'worlds are bounded (<= ~10 modules); order dependence needing more modules is only sampled on real trees',
    'schedules per world are enumerated completely only when there are <= 720 of them, otherwise sampled',
    'the schedule seam is the order of ISystemBuilder.addModuleString calls (generated worlds) or os.listdir order + model.sorted stand-in (file trees)',
    'identity of an object across runs is the marker planted in its docstring',
]

PROFILES: List[Tuple[str, float, Dict[str, Any]]] = [
    # name, weight, profile overrides
    ('plain',     2, dict(reexport=0.0, roots=(1, 3))),
    ('reexport',  4, dict(reexport=0.6, roots=(1, 3))),
    ('consumers', 2, dict(reexport=0.7, roots=(2, 3), consumer_roots=True)),
    ('cyclic',    3, dict(reexport=0.3, cyclic=True, roots=(1, 2))),
    ('cyclic-star', 5, dict(reexport=0.2, cyclic=True, star=0.7, roots=(1, 2), own_all=0.1)),
    # many re-exporting modules over small defining modules: a class and its base are often moved by different
    # re-exporters, a subclass often sits in a plain module whose position in the order is free
    ('layers',    6, dict(reexport=0.9, roots=(2, 3), consumer_roots=True, children=(4, 7), subpkg=0.2, defs=(1, 3), imports=(2, 3), star=0.05,
                          nested=0.0, own_all=0.0, alias=0.05, max_modules=10, prefer_local=0.8)),
    ('nested-refs', 2, dict(reexport=0.5, roots=(1, 3), nested=0.7, nested_refs=0.8, alias=0.3)),
    ('docformat', 1, dict(reexport=0.3, roots=(1, 2), fields=0.8, pkg_docformat=1.0, consumer_roots=True)),
    ('multi',     1, dict(reexport=0.7, multi_reexport=True, roots=(1, 3))),
    ('zope',      3, dict(reexport=0.3, zope=1.0, roots=(1, 2))),
    ('docassign', 3, dict(reexport=0.3, docassign=0.7, docassign_modules=True, roots=(1, 2))),
    ('dups',      1, dict(reexport=0.4, dup=0.5, dup_mixed=True, roots=(1, 2))),
    ('shadow',    2, dict(reexport=0.7, shadow_import=0.7, rebind_same=0.4, roots=(1, 3), consumer_roots=True)),
    ('attrs',     4, dict(reexport=0.4, attr_pool=0.9, method_pool=True, defs=(2, 4), roots=(1, 2), nested=0.0, star=0.05)),
]


def pick_profile(rng: Rng) -> Tuple[str, Dict[str, Any]]:
    import os
    name = rng.weighted([(n, w) for n, w, _ in PROFILES])
    name = os.environ.get('VERIF_PROFILE') or name      # triage aid
    for n, _, over in PROFILES:
        if n == name:
            return n, W.profile(**over)
    raise AssertionError


def plan(tier: str, seed: int) -> Dict[str, Any]:
    import os
    n = int(os.environ.get('VERIF_TASKS') or 0) or (1800 if tier == 'quick' else 40000)
    tasks = [{'i': i, 'seed': derive(seed, PROPERTY, i), 'limit': 720 if tier == 'thorough' else 120,
              'nsample': 24 if tier == 'thorough' else 10} for i in range(n)]
    # real trees through the file-system seam: every test package alone, and seeded pairs (root order matters too)
    rr = Rng(seed, 'c06-real-plan')
    real = [{'i': n + j, 'seed': derive(seed, PROPERTY, 'real', j), 'trees': [t], 'nsched': 6 if tier == 'quick' else 40}
            for j, t in enumerate(REAL_QUICK)]
    for j in range(8 if tier == 'quick' else 60):
        real.append({'i': n + len(real), 'seed': derive(seed, PROPERTY, 'pair', j), 'trees': rr.sub(j).sample(REAL_QUICK, 2),
                     'nsched': 6 if tier == 'quick' else 24})
    if tier == 'thorough':
        for j, t in enumerate(REAL_THOROUGH):
            real.append({'i': n + len(real), 'seed': derive(seed, PROPERTY, 'big', j), 'trees': [t], 'nsched': 12})
    # interleave so that a budget cut does not drop them all
    step = max(1, len(tasks) // max(1, len(real)))
    merged: List[Dict[str, Any]] = []
    ri = 0
    for k, t in enumerate(tasks):
        merged.append(t)
        if k % step == 0 and ri < len(real):
            merged.append(real[ri])
            ri += 1
    merged.extend(real[ri:])
    return {'tasks': merged, 'budget_s': 100 if tier == 'quick' else 1500, 'task_timeout': 300, 'selfcheck': 6}


# --------------------------------------------------------------------------

def index_world(world: Dict[str, Any]) -> Dict[int, Tuple[str, Tuple[int, ...], Dict[str, Any]]]:
    idx = {}
    for modname, m in world['modules'].items():
        for scope, st in W.iter_stmts(m['body']):
            if 'id' in st:
                idx[st['id']] = (modname, scope, st)
    return idx


def top_id(world: Dict[str, Any], i: int) -> int:
    defs = world['truth']['defs']
    while defs[str(i)].get('outer') is not None:
        i = defs[str(i)]['outer']
    return i


def project(d: Dict[str, Dict[str, Any]], roots: Set[str]) -> Dict[str, Dict[str, Any]]:
    """``roots`` = root names of the project plus every name some module of the project binds: an unresolved
    linearisation entry that starts with one of them is a name of the project that pydoctor could not follow, not an
    external class."""
    out = {}
    for i, rec in d.items():
        if i.startswith('!'):
            out[i] = rec
            continue
        r = dict(rec)
        if 'mro' in r:
            # names of the project that pydoctor could not resolve are not classes: the
            # statement speaks of resolved bases and linearisations
            r['mro'] = [x for x in r['mro'] if not (x.startswith('ext:') and x[4:].split('.')[0] in roots)]
        r.pop('rawbases', None)
        # 'parent' stays: it is identity, not location
        out[i] = r
    return out


def compare(world: Dict[str, Any], ref: Dict[str, Any], other: Dict[str, Any],
            cyclic: bool) -> List[Tuple[str, str, Any, Any]]:
    """Return [(attribute, identity, ref value, other value)] -- root causes only."""
    diffs: List[Tuple[str, str, Any, Any]] = []
    if '!crash' in ref or '!crash' in other:
        if ref.get('!crash') != other.get('!crash'):
            diffs.append(('crash', '-', ref.get('!crash'), other.get('!crash')))
        return diffs
    truth = world['truth']
    reexp = truth['reexporters']
    ids = sorted(set(ref) | set(other))
    bases_diff: Set[str] = set()
    for i in ids:
        a, b = ref.get(i), other.get(i)
        if a is None or b is None:
            continue
        if a.get('bases') != b.get('bases'):
            bases_diff.add(i)
    for i in ids:
        a, b = ref.get(i), other.get(i)
        if i.startswith('!'):
            if a != b and not cyclic:
                diffs.append(('dups', i, a, b))
            continue
        if a is None or b is None:
            if not cyclic:
                diffs.append(('presence', i, a and a['location'], b and b['location']))
            continue
        if i in bases_diff:
            if len(a['bases']) == len(b['bases']):
                for j, (x, y) in enumerate(zip(a['bases'], b['bases'])):
                    if x != y:
                        diffs.append((f'bases#{j}', i, x, y))
            else:
                diffs.append(('bases', i, a['bases'], b['bases']))
        elif a.get('mro') != b.get('mro'):
            anc = set(a['mro']) | set(b['mro'])
            if not (anc & bases_diff):
                diffs.append(('mro', i, a['mro'], b['mro']))
        if cyclic:
            continue
        # the kind of a member (instance vs class variable, inherited docstring ...) follows from the linearisation of its
        # class: when that class already differs in bases/mro the member difference is a consequence, not a root cause
        par = a.get('parent')
        par_differs = par is not None and par == b.get('parent') and par in ref and par in other and \
            (ref[par].get('bases') != other[par].get('bases') or ref[par].get('mro') != other[par].get('mro'))
        for attr in ('type', 'kind', 'docstring'):
            if a.get(attr) != b.get(attr):
                if attr == 'kind' and par_differs:
                    continue
                diffs.append((attr, i, a.get(attr), b.get(attr)))
        if a['location'] != b['location']:
            # compared only for objects re-exported by at most one module
            n = 0
            if i.startswith('M'):
                try:
                    n = len(reexp.get(str(top_id(world, int(i[1:]))), []))
                except KeyError:
                    n = 0
            elif i.startswith('anon:'):
                n = 2 if world['profile'].get('multi_reexport') else 0
            if n <= 1:
                diffs.append(('location', i, a['location'], b['location']))
    return diffs


def signature(world: Dict[str, Any], idx: Dict[int, Any], attr: str, ident: str, a: Any, b: Any,
              partial: str, times_moved: Optional[Dict[str, int]] = None) -> str:
    """Name the invariant and the shape of the failing case (root-cause class)."""
    from sim.oracles import _direct
    truth = world['truth']
    tags: List[str] = []
    cyc = 1 if truth['cyclic'] else 0
    j = None
    if attr.startswith('bases#'):
        j = int(attr[6:])
        attr = 'bases'

    def moved_tag(i: Optional[int]) -> str:
        if i is None:
            return '?'
        n = len(truth['reexporters'].get(str(top_id(world, i)), []))
        return 'stays' if n == 0 else 'moved' if n == 1 else 'moved-multi'

    if attr in ('bases', 'mro') and ident.startswith('M') and int(ident[1:]) in idx:
        modname, scope, st = idx[int(ident[1:])]
        if attr == 'bases' and j is not None and j < len(st.get('bases', [])):
            ref = st['bases'][j]
            tags.append('route=' + str(ref.get('route', '?')))
            tags.append('target=' + ('ext' if ref.get('ext') else moved_tag(ref.get('id'))))
            tags.append('self=' + moved_tag(st['id']))
            tags.append('reach=' + ('?' if ref.get('id') is None else 'direct' if _direct(world, modname, ref) else 'chain'))
            if _binders(world, modname, ref.get('expr', '').split('.')[0]) >= 2:
                tags.append('star-rebinds-name')
        else:
            tags.append('self=' + moved_tag(st['id']))
    elif attr in ('kind', 'docstring', 'type', 'location', 'presence') and ident.startswith('M') and int(ident[1:]) in idx:
        modname, scope, st = idx[int(ident[1:])]
        tags.append('what=' + st['k'])
        tags.append('self=' + moved_tag(st['id']))
        if attr == 'location' and times_moved:
            # how often the object (or the top-level object it sits in) was actually moved in one run: an object that
            # two modules re-export is moved twice, and where it ends up then depends on which one came last
            top = f'M{scope[0]}' if scope else ident
            n = max(times_moved.get(top, 0), times_moved.get(ident, 0))
            if n >= 2:
                tags.append(f'times-moved={min(n, 3)}')
        if attr == 'kind':
            tags.append(f'{a}->{b}' if str(a) < str(b) else f'{b}->{a}')
            if st['k'] == 'class':
                # zope: is an interface among the ancestors, and by which route is it reached?
                routes = set()
                seen = set()
                stack = [st['id']]
                while stack:
                    c = stack.pop()
                    if c in seen or c not in idx:
                        continue
                    seen.add(c)
                    cm, _, cst = idx[c]
                    for ref in cst.get('bases', []):
                        if ref.get('id') is not None and truth['defs'][str(ref['id'])].get('iface'):
                            routes.add(str(ref.get('route')))
                        if ref.get('id') is not None:
                            stack.append(ref['id'])
                if routes:
                    tags.append('iface-base-via=' + '+'.join(sorted(routes)))
        if attr == 'docstring':
            targets = {s2['target'].get('id') for m in world['modules'].values() for _, s2 in W.iter_stmts(m['body'])
                       if s2['k'] == 'docassign'}
            if st['id'] in targets:
                routes = sorted({str(s2['target'].get('route')) for m in world['modules'].values()
                                 for _, s2 in W.iter_stmts(m['body'])
                                 if s2['k'] == 'docassign' and s2['target'].get('id') == st['id']})
                tags.append('docassign-via=' + '+'.join(routes))
                reach = set()
                for mn, m in world['modules'].items():
                    for _, s2 in W.iter_stmts(m['body']):
                        if s2['k'] == 'docassign' and s2['target'].get('id') == st['id']:
                            reach.add('direct' if _direct(world, mn, s2['target']) else 'chain')
                tags.append('reach=' + '+'.join(sorted(reach)))
    else:
        tags.append('what=' + ident.split(':')[0])
    tags.append(f'cyclic={cyc}')
    if partial.startswith('star-from-partial:'):
        # Known root cause only if the differing name actually flows through a star import that was executed while its
        # source was half built (the importer then misses the names defined later).  A module that star-imports the
        # same source *after* it was completely analysed must not be affected.
        pairs = {tuple(x.split('<-')) for x in partial.split(':', 1)[1].split(';')}
        flows = False
        if attr in ('bases', 'mro') and ident.startswith('M') and int(ident[1:]) in idx:
            modname, scope, st = idx[int(ident[1:])]
            refs = [st['bases'][j]] if (attr == 'bases' and j is not None and j < len(st.get('bases', []))) else st.get('bases', [])
            # for an mro difference look at the bases of every ancestor too
            todo = list(refs)
            seen_cls = set()
            mods_refs = [(modname, r) for r in todo]
            if attr == 'mro':
                stack = [st['id']]
                while stack:
                    c = stack.pop()
                    if c in seen_cls or c not in idx:
                        continue
                    seen_cls.add(c)
                    cm, _, cst = idx[c]
                    for r in cst.get('bases', []):
                        mods_refs.append((cm, r))
                        if r.get('id') is not None:
                            stack.append(r['id'])
            for mn, r in mods_refs:
                if _flows_through(world, mn, r, pairs):
                    flows = True
                    break
        else:
            flows = True
        tags.append('star-from-partial' if flows else 'partial-read-elsewhere')
    elif partial:
        tags.append(partial)
    return f'{PROPERTY}/{attr}/' + ','.join(tags)


def _binders(world: Dict[str, Any], modname: str, name: str) -> int:
    """How many statements of ``modname`` bind ``name``, counting a star import when the (final) exported names of
    its source include it.  Two or more with a star import among them means that the star import re-binds a name the
    module already had - harmless in Python when both denote the same object, but pydoctor then records whichever
    came last, possibly an import chain it cannot follow."""
    truth = world['truth']
    n = 0
    star = 0
    m = world['modules'].get(modname)
    if m is None:
        return 0
    for scope, st in W.iter_stmts(m['body']):
        if scope:
            continue
        k = st['k']
        if k in ('class', 'func', 'var') and st['name'] == name:
            n += 1
        elif k == 'alias' and st['name'] == name:
            n += 1
        elif k == 'import':
            bound = st['as'] or st['mod'].split('.')[0]
            n += int(bound == name)
        elif k == 'from':
            if st['names'] == '*':
                src = world['modules'].get(st['mod'])
                if src is None:
                    continue
                sns = truth['ns'].get(st['mod'], {})
                exported = [x for x in src['all'] if x in sns] if src['all'] is not None else [x for x in sns if not x.startswith('_')]
                if name in exported:
                    n += 1
                    star += 1
            else:
                n += sum(1 for o, a in st['names'] if (a or o) == name)
    return n if star else min(n, 1)


def _merge_partial(a: str, b: str) -> str:
    pre = 'star-from-partial:'
    if a.startswith(pre) or b.startswith(pre):
        pairs = set()
        for x in (a, b):
            if x.startswith(pre):
                pairs.update(x[len(pre):].split(';'))
        return pre + ';'.join(sorted(pairs))
    return a or b


def _flows_through(world: Dict[str, Any], modname: str, ref: Dict[str, Any], pairs: Set[Tuple[str, ...]]) -> bool:
    """Does the name used by ``ref`` in ``modname`` reach its definition through a star import statement
    (reader <- source) in ``pairs``?  Follows the recorded origin of each binding."""
    truth = world['truth']
    expr = ref.get('expr', '')
    head = expr.split('.')[0]
    cur_mod, cur_name = modname, head
    # attribute of a module binding: continue inside that module with the last component
    b = truth['ns'].get(cur_mod, {}).get(cur_name)
    hops = 0
    while hops < 12:
        hops += 1
        if b is not None and b[0] == 'm':
            # dotted access: the remaining name is looked up in that module
            rest = expr.split('.')[1:]
            if not rest:
                return False
            cur_mod, cur_name = b[1], rest[0]
            expr = '.'.join(rest)
            b = truth['ns'].get(cur_mod, {}).get(cur_name)
            if b is None and f'{cur_mod}.{cur_name}' in world['modules']:
                b = ['m', f'{cur_mod}.{cur_name}']      # a sub-module reached as an attribute of its package
            continue
        route = truth['routes'].get(f'{cur_mod}:{cur_name}', 'local')
        org = truth['origin'].get(f'{cur_mod}:{cur_name}')
        if route == 'star' and org and (cur_mod, org[0]) in pairs:
            return True
        if not org or route == 'local':
            return False
        cur_mod, cur_name = org[0], org[1]
        b = truth['ns'].get(cur_mod, {}).get(cur_name)
    return False


def _roots(world: Dict[str, Any]) -> Set[str]:
    out = {m.split('.')[0] for m in world['modules']}
    for ns in world['truth']['ns'].values():
        out.update(ns)
    for cns in world['truth']['cns'].values():
        out.update(cns)
    return out


def run_world(world: Dict[str, Any], scheds: Sequence[Sequence[str]]) -> Dict[str, Any]:
    texts = W.render_world(world)
    pkgs = {k: m['pkg'] for k, m in world['modules'].items()}
    roots = _roots(world)
    idx = index_world(world)
    cyclic = world['truth']['cyclic']
    star_stmts = {(mn, st['mod']) for mn, m in world['modules'].items() for _, st in W.iter_stmts(m['body'])
                  if st['k'] == 'from' and st['names'] == '*'}
    ref = None
    ref_moves: Dict[str, int] = {}
    ref_sched: Optional[Sequence[str]] = None
    violations: Dict[str, Dict[str, Any]] = {}
    inter: Set[str] = set()
    finals: Set[str] = set()
    partial_any = False
    moves = 0
    partial_moves = 0
    second_pass = 0
    h = hashlib.blake2b(digest_size=8)
    for sc in scheds:
        system, out, exc = simsystem.build(texts, pkgs, sc)
        iid = simsystem.interleaving_id(system.sim_log)
        inter.add(iid)
        partial_mods = {e[1] for e in system.sim_log if e[0] == 'partial'}
        # (source module read while half built, module that was reading it)
        partial_pairs = {(e[1], e[2]) for e in system.sim_log if e[0] == 'partial'}
        star_partial_pairs = {(src, rd) for (src, rd) in partial_pairs if (rd, src) in star_stmts}
        partial = ('star-from-partial:' + ';'.join(sorted(f'{rd}<-{src}' for src, rd in star_partial_pairs))) if star_partial_pairs \
            else ('partial-read' if partial_mods else '')
        partial_any |= bool(partial_mods)
        # probes
        proc = set()
        for e in system.sim_log:
            if e[0] == 'enter':
                proc.add(e[1])
            elif e[0] == 'exit':
                proc.discard(e[1])
            elif e[0] == 'move':
                moves += 1
                src = e[1].split("'")[1].rsplit('.', 1)[0]
                if src in proc:
                    partial_moves += 1
        if exc is None:
            d = project(simsystem.dump(system), roots)
            for o in system.allobjects.values():
                if isinstance(o, simsystem.model.Class) and o._finalbaseobjects is not None:
                    for x, y in zip(o._initialbaseobjects, o._finalbaseobjects):
                        if x is None and y is not None:
                            second_pass += 1
        else:
            d = {'!crash': f'{type(exc).__name__}: {exc}'}
        dd = hashlib.blake2b(json.dumps(d, sort_keys=True, default=str).encode(), digest_size=8).hexdigest()
        finals.add(dd)
        h.update(iid.encode())
        h.update(dd.encode())
        tm: Dict[str, int] = {}
        for e in system.sim_log:
            if e[0] == 'reparent':
                tm[e[1]] = tm.get(e[1], 0) + 1
        if ref is None:
            ref, ref_sched, ref_partial, ref_moves = d, sc, partial, tm
            continue
        both = {k: max(tm.get(k, 0), ref_moves.get(k, 0)) for k in set(tm) | set(ref_moves)}
        for attr, ident, a, b in compare(world, ref, d, cyclic):
            sig = signature(world, idx, attr, ident, a, b, _merge_partial(partial, ref_partial), both)
            if sig not in violations:
                violations[sig] = {
                    'signature': sig,
                    'detail': f'{attr} of {ident}: {a!r} under schedule {list(ref_sched)} but {b!r} under {list(sc)}',
                    'payload': {'world': world, 'schedules': [list(ref_sched), list(sc)]},
                }
    return {
        'violations': [violations[k] for k in sorted(violations)],
        'digest': h.hexdigest(),
        'stats': {
            'runs': len(scheds), 'interleavings': sorted(inter), 'finals': len(finals),
            'cyclic': bool(cyclic), 'partial': partial_any, 'moves': moves, 'partial_moves': partial_moves,
            'second_pass': second_pass, 'modules': len(world['modules']),
        },
    }


# --------------------------------------------------------------------------
# real trees through the file-system seam (S1b)

TESTPKG = simsystem.REPO + '/pydoctor/test/testpackages'
REAL_QUICK = ['allgames', 'basic', 'codeininit', 'cyclic_imports', 'cyclic_imports_base_classes', 'importingfrompackage',
              'interfaceallgames', 'interfaceclass', 'multipleinheritance', 'nestedconfusion', 'relativeimporttest',
              'reparented_module', 'reparenting_crash', 'reparenting_crash_alt', 'reparenting_follows_aliases', 'report_trigger',
              'modnamedafterbuiltin', 'package_module_name_clash', 'syntax_error']
REAL_THOROUGH = [simsystem.REPO + '/pydoctor/templatewriter', simsystem.REPO + '/pydoctor/epydoc', simsystem.REPO + '/pydoctor/extensions',
                 'site:attr', 'site:hyperlink', 'site:constantly', 'site:incremental', 'site:automat', 'site:lunr', 'site:requests',
                 'site:cachecontrol', 'site:idna', 'site:packaging', 'site:urllib3']


def _real_path(name: str) -> Optional[str]:
    import os
    if name.startswith('site:'):
        import importlib.util
        spec = importlib.util.find_spec(name[5:])
        if spec is None or not spec.submodule_search_locations:
            return None
        return list(spec.submodule_search_locations)[0]
    if name.startswith('/'):
        return name if os.path.isdir(name) else None
    return os.path.join(TESTPKG, name)


def real_ident(obj: Any, root: str) -> str:
    import os
    sp = os.path.relpath(str(obj.source_path), root) if obj.source_path is not None else '?'
    return f'{type(obj).__mro__[0].__name__[:1]}:{sp}:{int(obj.linenumber) if obj.linenumber else 0}:{obj.name.split(" ")[0]}'


def run_real(task: Dict[str, Any]) -> Dict[str, Any]:
    import os
    import contextlib
    import io
    from pathlib import Path
    rng = Rng(task['seed'], 'c06-real')
    names = task['trees']
    paths = [p for p in (_real_path(n) for n in names) if p]
    if not paths:
        return {'violations': [], 'digest': 'skipped', 'stats': {'runs': 0, 'interleavings': [], 'finals': 0, 'cyclic': False, 'partial': False,
                                                                'moves': 0, 'partial_moves': 0, 'second_pass': 0, 'modules': 0, 'profile': 'real', 'exhaustive': False,
                                                                'skipped_trees': names}}
    root = os.path.commonpath([os.path.dirname(p) for p in paths])
    # directories of the trees
    dirs = []
    for p in paths:
        for dp, dn, fn in os.walk(p):
            dn[:] = sorted(d for d in dn if d != '__pycache__')
            dirs.append(dp)
    nsched = task.get('nsched', 6)
    dumps = []
    inter: Set[str] = set()
    partial_any = False
    movers: Dict[str, Set[str]] = {}
    h = hashlib.blake2b(digest_size=8)
    scheds = []
    for k in range(nsched):
        r = rng.sub(k)
        listing = {}
        for d in dirs:
            ents = sorted(e for e in os.listdir(d) if e != '__pycache__')
            if k == 0:
                pass                       # the shipped (sorted) order
            elif k == 1:
                ents = list(reversed(ents))
            else:
                ents = r.sub(d).shuffled(ents)
            listing[d] = ents
        order_paths = list(paths) if k == 0 else (list(reversed(paths)) if k == 1 else r.sub('roots').shuffled(paths))
        system = simsystem.SimSystem(simsystem.make_options())
        exc = None
        buf = io.StringIO()
        with simsystem.listing_order(listing), contextlib.redirect_stdout(buf):
            try:
                b = system.systemBuilder(system)
                for pth in order_paths:
                    b.addModule(Path(pth))
                b.buildModules()
            except Exception as e:
                exc = e
        iid = simsystem.interleaving_id(system.sim_log)
        inter.add(iid)
        partial_any |= any(e[0] == 'partial' for e in system.sim_log)
        reg = [e[1] for e in system.sim_log if e[0] == 'enter' and e[2] == 0]
        scheds.append(reg)
        if exc is not None:
            d = {'!crash': f'{type(exc).__name__}: {exc}'}
        else:
            d = {}
            objs = {}
            for name, o in system.allobjects.items():
                objs[id(o)] = real_ident(o, root)
            for name, o in system.allobjects.items():
                i = objs[id(o)]
                rec = {'kind': o.kind.name if o.kind else None, 'docstring': o.docstring, 'location': name}
                if isinstance(o, simsystem.model.Class):
                    rec['bases'] = [objs.get(id(x)) if x is not None else None for x in o.baseobjects]
                    rec['mro'] = [objs.get(id(c)) for c in o.mro()]
                if i in d:
                    i = f'{i}@{name}'
                d[i] = rec
            for e in system.sim_log:
                if e[0] == 'move':
                    parts = e[1].split("'")
                    movers.setdefault(parts[1].rsplit('.', 1)[-1], set()).add(parts[3])
        dumps.append(d)
        h.update(iid.encode())
        h.update(hashlib.blake2b(json.dumps(d, sort_keys=True, default=str).encode(), digest_size=8).digest())
    violations: Dict[str, Dict[str, Any]] = {}
    ref = dumps[0]
    tree_tag = '+'.join(os.path.basename(p) for p in paths)
    for k, d in enumerate(dumps[1:], 1):
        if '!crash' in ref or '!crash' in d:
            if ref.get('!crash') != d.get('!crash'):
                sig = f'{PROPERTY}/real/crash,tree={tree_tag}'
                violations.setdefault(sig, {'signature': sig, 'detail': f'{ref.get("!crash")} vs {d.get("!crash")} (schedule {scheds[k]})',
                                            'payload': {'real': task}})
            continue
        for i in sorted(set(ref) | set(d)):
            a, b = ref.get(i), d.get(i)
            attrs = []
            if a is None or b is None:
                if not partial_any:
                    attrs.append('presence')
            else:
                for attr in ('bases', 'mro'):
                    if a.get(attr) != b.get(attr):
                        attrs.append(attr)
                if not partial_any:
                    for attr in ('kind', 'docstring'):
                        if a.get(attr) != b.get(attr):
                            attrs.append(attr)
                    if a['location'] != b['location'] and len(movers.get(i.rsplit(':', 1)[-1], ())) <= 1:
                        attrs.append('location')
            for attr in attrs[:1]:
                sig = f'{PROPERTY}/real/{attr},tree={tree_tag},object={i},cyclic={int(partial_any)}'
                violations.setdefault(sig, {'signature': sig,
                                            'detail': f'{attr} of {i}: {a and a.get(attr, a.get("location"))!r} under the shipped order but {b and b.get(attr, b.get("location"))!r} under registration order {scheds[k]}',
                                            'payload': {'real': task}})
    return {'violations': [violations[k] for k in sorted(violations)][:5], 'digest': h.hexdigest(),
            'stats': {'runs': nsched, 'interleavings': sorted(inter), 'finals': len({json.dumps(x, sort_keys=True, default=str) for x in dumps}),
                      'cyclic': partial_any, 'partial': partial_any, 'moves': sum(len(v) for v in movers.values()), 'partial_moves': 0,
                      'second_pass': 0, 'modules': len(scheds[0]), 'profile': 'real', 'exhaustive': False, 'real_trees': names},
            'sample': {'real_trees': names, 'registration_orders': scheds[:3]}}


def run_task(task: Dict[str, Any]) -> Dict[str, Any]:
    if task.get('trees'):
        return run_real(task)
    rng = Rng(task['seed'], 'c06')
    pname, prof = pick_profile(rng.sub('profile'))
    world = W.gen_world(rng.sub('world'), prof)
    scheds, exhaustive = schedule.schedules_for(world['modules'], rng.sub('sched'),
                                                limit=task.get('limit', 120), nsample=task.get('nsample', 10))
    res = run_world(world, scheds)
    res['stats']['profile'] = pname
    res['stats']['exhaustive'] = exhaustive
    res['sample'] = {'profile': pname, 'modules': W.render_world(world), 'schedules_run': len(scheds),
                     'first_schedules': [list(s) for s in scheds[:3]], 'exhaustive': exhaustive}
    return res


def replay(payload: Dict[str, Any]) -> Dict[str, Any]:
    if 'real' in payload:
        return run_real(payload['real'])
    return run_world(payload['world'], payload['schedules'])


def minimise(v: Dict[str, Any]) -> Dict[str, Any]:
    from sim import minimise as M
    if 'real' in v['payload']:
        return v
    return M.minimise_world_violation(v, replay)


def coverage(stats: List[Dict[str, Any]], samples: List[Any]) -> Dict[str, Any]:
    inter: Set[str] = set()
    for s in stats:
        inter.update(s['interleavings'])
    runs = sum(s['runs'] for s in stats)
    nontrivial = sum(1 for s in stats if len(s['interleavings']) > 1)
    profs: Dict[str, int] = {}
    for s in stats:
        profs[s['profile']] = profs.get(s['profile'], 0) + 1
    return {
        'evaluations': runs,
        'distinct_nontrivial': len(inter),
        'rule': 'one evaluation = one (world, schedule) model build with the real astbuilder; counted distinct = distinct '
                'interleaving ids (hash of the nested processModule enter/exit trace plus every read of a module in state '
                'PROCESSING); a world is non-trivial when its schedules reach more than one interleaving',
        'samples': samples,
        'worlds': len(stats),
        'worlds_with_several_interleavings': nontrivial,
        'exhaustive_worlds': sum(1 for s in stats if s['exhaustive']),
        'cyclic_worlds': sum(1 for s in stats if s['cyclic']),
        'worlds_by_profile': profs,
        'real_tree_tasks': sum(1 for s in stats if s.get('profile') == 'real'),
        'real_trees': sorted({t for s in stats for t in s.get('real_trees', [])}),
        'real_trees_skipped': sorted({t for s in stats for t in s.get('skipped_trees', [])}),
        'distinct_interleavings': len(inter),
        'worlds_with_more_than_one_final_state': sum(1 for s in stats if s['finals'] > 1),
        'probes': {
            'read_of_half_built_module': sum(1 for s in stats if s['partial']),
            're-export_moves': sum(s['moves'] for s in stats),
            'moves_out_of_a_half_built_module': sum(s['partial_moves'] for s in stats),
            'base_resolved_only_in_second_pass': sum(s['second_pass'] for s in stats),
        },
        'faults_injected': {'schedule permutations (the only fault kind of this property)': runs},
        'simulated_time': 'not applicable: no clock in the analysed code path',
        'components': {'real': ['pydoctor.model.System.process/processModule/getProcessedModule', 'pydoctor.astbuilder (parser, ModuleVistor, re-export, on-demand processing)', 'all default extensions', 'post-processing (MRO, subclasses)'],
                       'stub': ['SimSystem: recording-only subclass of model.System']},
    }
