"""C08 (containment part) -- when a parser or renderer fails internally the problem is
reported against that object, the complete original text is still shown as
plain text, and no other object is affected.

Simulated dimension: S8 -- an exception raised at an arbitrary instant inside
the dynamic extent of a guarded operation (docstring parser, stan renderer,
summary extraction), in pydoctor, docutils or twisted frames alike, via
sys.monitoring (sim/inject.py); plus S9: a fault-free twin forked from the same
parent gives the reference output.
"""
from __future__ import annotations

import hashlib
import html
import os
import re
import shutil
from typing import Any, Dict, List, Optional, Set, Tuple

from sim import docgen, inject, procrun, pytruth, runner, simsystem, world as W
from sim.prng import Rng, derive

PROPERTY = 'C08'
LEVEL = 'fault_enumeration'
ASSUMPTIONS = [
    'the "for all strings" half of the quantifier (totality of the parsers on arbitrary Unicode) is input space and not claimed',
    'only the operations pydoctor guards are injected: the parser callee of parse_docstring, the to_stan callee of safe_to_stan, the calls inside the try block of get_summary; unguarded sites (lunr corpus builder, get_toc) are not listed by the property',
    'injection granularity is one PY_START event (function entry) inside the extent, in any frame (pydoctor, docutils, twisted, stdlib)',
    'containment is judged on output files against a fault-free twin: every file outside the pages that show the target (its page, its ancestors, classes inheriting from its class) and outside the summary/search/inventory files must be byte-identical',
]

DOCFORMATS = ['epytext', 'restructuredtext', 'google', 'numpy', 'plaintext']
SUMMARY_FILES = {'index.html', 'moduleIndex.html', 'classIndex.html', 'nameIndex.html', 'undoccedSummary.html',
                 'all-documents.html', 'searchindex.json', 'fullsearchindex.json', 'objects.inv'}
REPORTED_FLAVOURS = {('parse', 'docstring'), ('to_stan', 'format_docstring_fallback')}


TWIN_TIMEOUT = 100      # wall-clock seconds for one rendering run (a normal one takes 1-3 s)


def plan(tier: str, seed: int) -> Dict[str, Any]:
    n = int(os.environ.get('VERIF_TASKS') or 0) or (170 if tier == 'quick' else 4000)
    tasks = [{'i': i, 'seed': derive(seed, PROPERTY, i), 'faults': 7 if tier == 'quick' else 14,
              'planted': i % 5 == 4} for i in range(n)]
    return {'tasks': tasks, 'budget_s': 85 if tier == 'quick' else 1800, 'task_timeout': 400, 'selfcheck': 2}


def make_case(rng: Rng, planted: bool) -> Dict[str, Any]:
    fmt = rng.sub('fmt').choice(DOCFORMATS)
    prof = W.profile(reexport=0.3, roots=(1, 1), children=(1, 3), subpkg=0.15, defs=(2, 4), fields=0.4 if fmt == 'epytext' else 0.0,
                     nested=0.3, method_pool=rng.sub('mp').chance(0.5), star=0.1, var_ann=0.6)
    world = W.gen_world(rng.sub('world'), prof)
    docgen.decorate(world, rng.sub('doc'), fmt, plant_rate=0.3 if planted else 0.0)
    o = rng.sub('opts')
    extra = ['--docformat', fmt, '--theme', o.weighted([('classic', 3), ('readthedocs', 1), ('base', 1)])]
    if o.chance(0.4) and fmt in ('epytext', 'restructuredtext'):
        extra.append('--process-types')
    if o.chance(0.25):
        extra.append('-W')
    if o.chance(0.3):
        extra += ['--sidebar-toc-depth', str(o.randint(0, 3))]
    extra.append(o.weighted([('-q', 1), ('-v', 1), ('', 2)]))
    extra = [e for e in extra if e]
    return {'files': W.world_files(world), 'roots': [m for m in world['modules'] if '.' not in m],
            'root_is_pkg': {m: world['modules'][m]['pkg'] for m in world['modules'] if '.' not in m},
            'extra': extra, 'docformat': fmt, 'planted': world['truth'].get('planted', {}),
            'defs': {i: {'name': d['name'], 'kind': d['kind']} for i, d in world['truth']['defs'].items()}}


def _text(htmltext: str) -> List[str]:
    t = re.sub(r'<(script|style)[^>]*>.*?</\1>', ' ', htmltext, flags=re.S)
    t = re.sub(r'<[^>]+>', ' ', t)
    return html.unescape(t).split()


def _subsequence(words: List[str], text: List[str]) -> bool:
    it = iter(text)
    return all(any(w == x for x in it) for w in words)


def render(job: Dict[str, Any]) -> Dict[str, Any]:
    """Runs in its own forked process: one full driver.main with (or without) one injected fault."""
    case, plan_ = job['case'], job.get('plan')
    root = pytruth.scratch_dir('verif-c08-')
    try:
        src = os.path.join(root, 'src')
        pytruth.write_tree(src, case['files'])
        paths = [os.path.join(src, r if case['root_is_pkg'][r] else r + '.py') for r in case['roots']]
        out = os.path.join(root, 'out')
        cwd = os.path.join(root, 'cwd')
        os.makedirs(cwd)
        os.chdir(cwd)
        inj = inject.Injector(plan_)
        inj.install()
        try:
            res = simsystem.run_main(['--html-output', out, '--project-name', 'P', '--buildtime', '2020-01-01 00:00:00'] + case['extra'] + paths)
        finally:
            inj.uninstall()
        system = res['system']
        r: Dict[str, Any] = {'exit': res['exit'], 'exc': res['exc'], 'fired': inj.fired, 'records': inj.records,
                             'tree': procrun.tree_digest(out) if os.path.isdir(out) else {}}
        if system is not None:
            r['parse_errors'] = {k: sorted(v) for k, v in system.parse_errors.items() if v}
            r['msgs'] = [(s, m[:300], t) for (s, m, t) in system.sim_msgs if t < 0]
            r['names'] = sorted(system.allobjects)
            # which objects do the recorded names denote now? (a name recorded at build time may predate a re-export move)
            rep = set()
            for n in system.parse_errors.get('docstring', ()):
                try:
                    ro = system.find_object(n)
                except LookupError:
                    ro = None
                if ro is not None:
                    rep.add(ro.fullName())
            r['reported_now'] = sorted(rep)
            r['violations_count'] = system.violations
            info: Dict[str, Any] = {}
            wanted = set()
            if inj.fired:
                wanted |= {inj.fired.get('target'), inj.fired.get('source')}
            for i_s in case.get('planted', {}):
                pass
            for name in sorted(x for x in wanted if x):
                o = system.allobjects.get(name)
                if o is None:
                    # the object may have been moved by a re-export after the (build-time) parse
                    try:
                        o = system.find_object(name)
                    except LookupError:
                        o = None
                if o is None:
                    continue
                pages = set()
                a: Any = o
                while a is not None:
                    pages.add(a.page_object.url)
                    a = a.parent
                # classes that inherit from a class enclosing the target list it (with its summary) among their inherited members
                a = o
                while a is not None:
                    if isinstance(a, simsystem.model.Class):
                        for c in system.objectsOfType(simsystem.model.Class):
                            if a in c.mro():
                                pages.add(c.page_object.url)
                    a = a.parent
                page = o.page_object.url
                try:
                    with open(os.path.join(out, page), encoding='utf-8') as f:
                        pagehtml = f.read()
                except OSError:
                    pagehtml = None
                # the text that must still be shown is the docstring the object is documented with (own or inherited)
                try:
                    shown_doc = simsystem.model.get_docstring(o)[0]
                except Exception:
                    shown_doc = o.docstring
                info[name] = {'pages': sorted(pages), 'page': page, 'docstring': shown_doc, 'description': o.description, 'fullname': o.fullName(),
                              'page_words': _text(pagehtml) if pagehtml is not None else None, 'visible': o.isVisible}
            r['info'] = info
            # planted problems (fault-free batch)
            planted_info = {}
            if case.get('planted') and plan_ is None:
                bym: Dict[int, Any] = {}
                for o in system.allobjects.values():
                    m = simsystem.marker_of(o)
                    if m is not None and not isinstance(o, simsystem.model.Module):
                        bym.setdefault(m, o)
                for i_s, kind in case['planted'].items():
                    o = bym.get(int(i_s))
                    if o is None:
                        continue
                    try:
                        with open(os.path.join(out, o.page_object.url), encoding='utf-8') as f:
                            words = _text(f.read())
                    except OSError:
                        words = None
                    planted_info[i_s] = {'kind': kind, 'name': o.fullName(), 'docstring': o.docstring, 'page_words': words,
                                         'description': o.description}
            r['planted_info'] = planted_info
            # fault-free run: the text of every docstring must reach the page of its object, rendered or as plain text
            lost = []
            if plan_ is None:
                pages: Dict[str, Optional[str]] = {}
                for o in system.allobjects.values():
                    m = simsystem.marker_of(o)
                    if m is None or isinstance(o, simsystem.model.Module) or not o.isVisible or o.docstring is None:
                        continue
                    url = o.page_object.url
                    if url not in pages:
                        try:
                            with open(os.path.join(out, url), encoding='utf-8') as f:
                                pages[url] = ' '.join(_text(f.read()))
                        except OSError:
                            pages[url] = None
                    if pages[url] is not None and f'M{m}M' not in pages[url]:
                        lost.append((o.fullName(), o.kind.name if o.kind else '?', o.docstring[:300]))
            r['lost_text'] = lost
        return r
    finally:
        os.chdir('/')
        shutil.rmtree(root, ignore_errors=True)


def judge(plan_: Dict[str, Any], twin: Dict[str, Any], res: Dict[str, Any]) -> List[Tuple[str, str]]:
    viols: List[Tuple[str, str]] = []
    tag = f"op={plan_['op']}:{plan_['flavour']}"
    if res['exc'] is not None:
        viols.append((f'aborted,exc={res["exc"][0]},{tag}', f'run raised {res["exc"][0]}: {res["exc"][1]}\n{res["exc"][2] if len(res["exc"]) > 2 else ""}'))
        return viols
    if res['exit'] not in (0, 2, 3):
        viols.append((f'exit-status={res["exit"]},{tag}', 'unexpected exit status'))
    fired = res['fired']
    target, source = fired['target'], fired['source'] or fired['target']
    key = (plan_['op'], plan_['flavour'])
    info = res.get('info', {})
    surfaced = bool(fired.get('surfaced'))
    # (2) reported against the object -- when the failure reached the guard (an exception raised inside
    # docutils or the linker may be absorbed by a handler further in: then nothing "gave up")
    if key in REPORTED_FLAVOURS and surfaced:
        errs = res.get('parse_errors', {}).get('docstring', [])
        cur_source = info.get(source, {}).get('fullname', source)
        if source not in errs and cur_source not in errs and cur_source not in res.get('reported_now', []):
            viols.append((f'not-reported,{tag}', f'{source} is not in parse_errors[docstring] ({errs}) after a fault in {fired}'))
        desc = info.get(source, {}).get('description')
        if desc and not any(s == 'docstring' and m.startswith(desc + ':') for s, m, t in res.get('msgs', [])):
            viols.append((f'no-message-naming-file,{tag}', f'no docstring message starts with {desc!r}: {res.get("msgs", [])[:3]}'))
        if res['exit'] not in (2, 3):
            viols.append((f'exit-status-not-2,{tag}', f'exit {res["exit"]} although {source} failed to parse/render'))
        # (3) the complete original text is still shown
        ti = info.get(target)
        if ti and ti.get('visible') and ti.get('docstring') and ti.get('page_words') is not None:
            import inspect
            words = inspect.cleandoc(ti['docstring']).split()
            if not _subsequence(words, ti['page_words']):
                missing = [w for w in words if w not in ti['page_words']][:8]
                viols.append((f'text-not-shown-in-full,{tag}', f'page {ti["page"]} of {target} does not show the complete docstring; e.g. missing {missing}'))
    # (4) containment against the twin
    # Only pages that show the *target* may differ.  When the docstring is inherited (source != target) the
    # source object's own rendering did not fail and its pages must not change.
    allowed: Set[str] = set(SUMMARY_FILES)
    if target in info:
        allowed |= set(info[target]['pages'])
    elif source in info:
        allowed |= set(info[source]['pages'])
    for path, what in procrun.diff_trees(twin['tree'], res['tree']):
        if path in allowed:
            continue
        viols.append((f'other-file-affected,what={what},{tag}', f'{path} {what} vs the fault-free twin; fault {fired}; allowed {sorted(allowed - SUMMARY_FILES)}'))
        break
    # (5) registered names equal outside the target's own field attributes
    tn, rn = set(twin.get('names', [])), set(res.get('names', []))
    odd = [n for n in sorted(tn ^ rn) if not (target and n.startswith(target + '.')) and not (source and n.startswith(source + '.'))]
    if odd:
        viols.append((f'objects-differ,{tag}', f'registered names differ from the twin outside {target}: {odd[:5]}'))
    # reports about other objects
    te = {k: set(v) for k, v in twin.get('parse_errors', {}).items()}
    for sec, names in res.get('parse_errors', {}).items():
        extra = set(names) - te.get(sec, set()) - {target, source}
        if extra:
            viols.append((f'other-object-reported,{tag}', f'parse_errors[{sec}] additionally has {sorted(extra)[:4]}'))
    return viols


def judge_planted(case: Dict[str, Any], res: Dict[str, Any]) -> List[Tuple[str, str]]:
    viols: List[Tuple[str, str]] = []
    if res['exc'] is not None:
        viols.append(('aborted,planted', f'run raised {res["exc"]}'))
        return viols
    errs = res.get('parse_errors', {}).get('docstring', [])
    import inspect
    for i_s, pi in res.get('planted_info', {}).items():
        fmt = case['docformat']
        # the error may have been recorded at build time under the name the object had before a re-export moved it
        if pi['name'] not in errs and pi['name'] not in res.get('reported_now', []):
            viols.append((f'planted-not-reported,kind={pi["kind"]},fmt={fmt}', f'{pi["name"]} has a planted {pi["kind"]} problem but is not in parse_errors[docstring]'))
        if not any(s == 'docstring' and m.startswith(pi['description'] + ':') for s, m, t in res.get('msgs', [])):
            viols.append((f'planted-no-message,kind={pi["kind"]},fmt={fmt}', f'no docstring message names {pi["description"]}'))
        if pi['kind'] == 'fatal-epytext' and pi['page_words'] is not None:
            words = inspect.cleandoc(pi['docstring']).split()
            if not _subsequence(words, pi['page_words']):
                viols.append((f'planted-text-not-shown,fmt={fmt}', f'{pi["name"]}: page does not show the complete docstring'))
    if res.get('planted_info') and res['exit'] not in (2, 3):
        viols.append((f'planted-exit-status={res["exit"]}', 'docstring problems were planted but the exit status is not 2/3'))
    return viols


def draw_plans(rng: Rng, records: List[Dict[str, Any]], k: int) -> List[Dict[str, Any]]:
    by: Dict[Tuple[str, str, str], List[Dict[str, Any]]] = {}
    for r in records:
        if r['events'] > 0:
            by.setdefault((r['op'], r['flavour'], r['stmt']), []).append(r)
    keys = sorted(by)
    plans = []
    for j in range(k):
        r = rng.sub(j)
        if not keys:
            break
        weights = [(key, 3.0 if (key[0], key[1]) in REPORTED_FLAVOURS else 1.0) for key in keys]
        key = r.weighted(weights)
        # extents whose docstring is inherited from another object are rare and share state with it: prefer them
        inherited = [x for x in by[key] if x.get('source') and x.get('target') and x['source'] != x['target']]
        rec = r.choice(inherited) if inherited and r.chance(0.5) else r.choice(by[key])
        ev = r.weighted([(1, 1), (r.randint(1, rec['events']), 4), (rec['events'], 1)])
        plans.append({'op': key[0], 'flavour': key[1], 'stmt': key[2], 'call': rec['call'], 'event': ev,
                      'exc': r.choice(sorted(inject.EXC_CLASSES)), 'bare': r.chance(0.3)})
    return plans


def run_case(case: Dict[str, Any], plans: Optional[List[Dict[str, Any]]], nplans: int, rng: Optional[Rng]) -> Dict[str, Any]:
    violations: Dict[str, Dict[str, Any]] = {}
    h = hashlib.blake2b(digest_size=8)
    stats: Dict[str, Any] = {'runs': 0, 'fired': {}, 'in_docutils': 0, 'in_pydoctor': 0, 'extents': 0, 'events': 0,
                             'planted': 0, 'exc_classes': {}}
    status, twin = runner.run_one(render, {'case': case, 'plan': None}, task_timeout=TWIN_TIMEOUT)
    stats['runs'] += 1
    if status == 'timeout':
        # "always succeeds and terminates": a fault-free run takes a second or two; one that is still running after
        # TWIN_TIMEOUT seconds of wall-clock, twice in a row, is reported as not terminating (no fault is involved)
        status, twin = runner.run_one(render, {'case': case, 'plan': None}, task_timeout=TWIN_TIMEOUT)
        if status == 'timeout':
            sig = f'{PROPERTY}/hang,fault-free'
            v = {'signature': sig, 'detail': f'fault-free rendering of the {case["docformat"]} tree did not finish within {TWIN_TIMEOUT}s (twice)',
                 'payload': {'case': case, 'plans': []}}
            h.update(sig.encode())
            return {'violations': [v], 'digest': h.hexdigest(), 'stats': stats,
                    'sample': {'docformat': case['docformat'], 'extra': case['extra'], 'files': sorted(case['files']),
                               'one_file': next(iter(case['files'].values()))[:1200], 'plans': [], 'guarded_extents_in_twin': 0}}
    if status != 'ok':
        raise RuntimeError(f'twin run {status}: {str(twin)[-1500:]}')
    if twin['exc'] is not None:
        sig = f'{PROPERTY}/aborted,fault-free'
        violations[sig] = {'signature': sig, 'detail': f'fault-free run raised {twin["exc"]}', 'payload': {'case': case, 'plans': []}}
    stats['extents'] = len(twin['records'])
    stats['events'] = sum(r['events'] for r in twin['records'])
    h.update(repr(sorted(twin['tree'].items())).encode())
    for name, kind, doc in twin.get('lost_text', [])[:3]:
        sig = f'{PROPERTY}/text-lost,fault-free,kind={kind}'
        violations.setdefault(sig, {'signature': sig, 'detail': f'fault-free run: the docstring of {name} ({doc!r}) does not appear on its page (neither rendered nor as plain text)',
                                    'payload': {'case': case, 'plans': []}})
    if case.get('planted'):
        stats['planted'] = len(twin.get('planted_info', {}))
        for suffix, detail in judge_planted(case, twin):
            sig = f'{PROPERTY}/{suffix}'
            violations.setdefault(sig, {'signature': sig, 'detail': detail, 'payload': {'case': case, 'plans': []}})
    if plans is None:
        assert rng is not None
        plans = draw_plans(rng, twin['records'], nplans)
    for p in plans:
        status, res = runner.run_one(render, {'case': case, 'plan': p}, task_timeout=TWIN_TIMEOUT)
        stats['runs'] += 1
        if status == 'timeout':
            sig = f'{PROPERTY}/hang,op={p["op"]}:{p["flavour"]}'
            violations.setdefault(sig, {'signature': sig, 'detail': f'run did not finish: {str(res)[-800:]}', 'payload': {'case': case, 'plans': [p]}})
            continue
        if status != 'ok':
            raise RuntimeError(f'fault run {status}: {str(res)[-1500:]}')
        if res['fired'] is None:
            raise RuntimeError(f'planned fault {p} did not fire (twin recorded {len(twin["records"])} extents): simulation is not deterministic')
        k = f'{p["op"]}:{p["flavour"]}'
        stats['fired'][k] = stats['fired'].get(k, 0) + 1
        stats['exc_classes'][p['exc']] = stats['exc_classes'].get(p['exc'], 0) + 1
        if p.get('bare'):
            stats['bare'] = stats.get('bare', 0) + 1
        if res['fired'].get('source') and res['fired'].get('target') and res['fired']['source'] != res['fired']['target']:
            stats['inherited'] = stats.get('inherited', 0) + 1
        if not res['fired'].get('surfaced'):
            stats['absorbed'] = stats.get('absorbed', 0) + 1
        if res['fired']['in_pydoctor']:
            stats['in_pydoctor'] += 1
        elif 'docutils' in res['fired']['in_code']:
            stats['in_docutils'] += 1
        viols = judge(p, twin, res)
        h.update(repr((p, res['exit'], sorted(s for s, _ in viols))).encode())
        for suffix, detail in viols:
            sig = f'{PROPERTY}/{suffix}'
            violations.setdefault(sig, {'signature': sig, 'detail': detail, 'payload': {'case': case, 'plans': [p]}})
    return {'violations': [violations[k] for k in sorted(violations)], 'digest': h.hexdigest(), 'stats': stats,
            'sample': {'docformat': case['docformat'], 'extra': case['extra'], 'files': sorted(case['files']),
                       'one_file': next(iter(case['files'].values()))[:1200], 'plans': plans[:3],
                       'guarded_extents_in_twin': len(twin['records'])}}


def run_task(task: Dict[str, Any]) -> Dict[str, Any]:
    rng = Rng(task['seed'], 'c08')
    case = make_case(rng.sub('case'), bool(task.get('planted')))
    return run_case(case, None, 0 if task.get('planted') else task.get('faults', 7), rng.sub('plans'))


def replay(payload: Dict[str, Any]) -> Dict[str, Any]:
    return run_case(payload['case'], payload['plans'], 0, None)


def minimise(v: Dict[str, Any]) -> Dict[str, Any]:
    """Move the injection point towards the start of the extent while the signature persists."""
    import copy
    sig = v['signature']
    payload = v['payload']
    if not payload.get('plans'):
        return v
    p = dict(payload['plans'][0])
    tried = 0
    while p['event'] > 1 and tried < 12:
        q = dict(p)
        q['event'] = p['event'] // 2
        tried += 1
        status, res = runner.run_one(replay, {'case': payload['case'], 'plans': [q]}, task_timeout=400)
        if status == 'ok' and any(x['signature'] == sig for x in res['violations']):
            p = q
        else:
            break
    out = dict(v)
    out['payload'] = {'case': payload['case'], 'plans': [p]}
    out['minimised_from'] = {'event_before': payload['plans'][0]['event'], 'event_after': p['event'], 'candidates_tried': tried}
    return out


def coverage(stats: List[Dict[str, Any]], samples: List[Any]) -> Dict[str, Any]:
    runs = sum(s['runs'] for s in stats)
    fired: Dict[str, int] = {}
    excs: Dict[str, int] = {}
    for s in stats:
        for k, v in s['fired'].items():
            fired[k] = fired.get(k, 0) + v
        for k, v in s['exc_classes'].items():
            excs[k] = excs.get(k, 0) + v
    return {
        'evaluations': runs,
        'distinct_nontrivial': sum(fired.values()),
        'rule': 'one evaluation = one full driver.main run in its own process; non-trivial = runs in which the planned exception actually fired '
                'inside a guarded extent (drawn within the bounds the fault-free twin recorded, so every planned fault fires); each is compared with its twin',
        'samples': samples,
        'worlds': len(stats),
        'faults_fired_by_operation': fired,
        'exception_classes': excs,
        'probes': {'injection_landed_in_a_pydoctor_frame': sum(s['in_pydoctor'] for s in stats),
                   'injection_landed_in_a_docutils_frame': sum(s['in_docutils'] for s in stats),
                   'exception_raised_without_a_message': sum(s.get('bare', 0) for s in stats),
                   'fault_while_rendering_a_docstring_inherited_from_another_object': sum(s.get('inherited', 0) for s in stats),
                   'injected_exception_absorbed_before_reaching_the_guard': sum(s.get('absorbed', 0) for s in stats),
                   'guarded_extents_seen_in_twins': sum(s['extents'] for s in stats),
                   'function_entries_inside_guarded_extents': sum(s['events'] for s in stats),
                   'planted_docstring_problems_checked_fault_free': sum(s['planted'] for s in stats)},
        'simulated_time': 'not applicable',
        'components': {'real': ['pydoctor.driver.main end to end', 'all docstring parsers (epytext, restructuredtext, google, numpy, plaintext, process-types)', 'docutils', 'node2stan / twisted.web.template flattening', 'templatewriter'],
                       'stub': ['sys.monitoring callbacks (LINE on three guard code objects; PY_START while an extent is open)', 'MainSimSystem recording subclass']},
    }
