"""C01 (containment part) -- a run never aborts; an unparsable file does not
prevent the other files from being documented.

Simulated dimensions: S7 storage faults on the source tree (torn / zero-filled /
bit-flipped / lost / duplicated-block / misdirected / garbage writes) x S1 the
processing schedule (a broken module can be reached at top level or on demand
from inside another module's analysis).  The whole CLI entry point runs
(options -> model -> HTML -> search index -> inventory).
"""
from __future__ import annotations

import ast
import hashlib
import os
import shutil
from typing import Any, Dict, List, Optional, Set, Tuple

from sim import disk, pytruth, schedule, simsystem, world as W
from sim.prng import Rng, derive

PROPERTY = 'C01'
LEVEL = 'fault_enumeration'
ASSUMPTIONS = [
    'the "for all source trees" half of the quantifier is input space and only sampled by the world generator and byte-level damage; this check decides the containment clause under storage faults and schedules',
    'I/O errors (EIO, EACCES, ENOSPC) are not injected: the property does not promise survival of them',
    'a damaged file counts as unparsable when ast.parse() of its bytes raises (decided by the harness, not by pydoctor)',
]

DOCFORMATS = ['epytext', 'restructuredtext', 'google', 'numpy', 'plaintext']
TESTPKG = simsystem.REPO + '/pydoctor/test/testpackages'
REAL = ['allgames', 'basic', 'codeininit', 'cyclic_imports', 'cyclic_imports_base_classes', 'importingfrompackage',
        'interfaceallgames', 'interfaceclass', 'multipleinheritance', 'nestedconfusion', 'relativeimporttest',
        'reparented_module', 'reparenting_crash_alt', 'reparenting_follows_aliases', 'report_trigger',
        'modnamedafterbuiltin', 'package_module_name_clash']
CORE_FILES = ['index.html', 'objects.inv', 'searchindex.json', 'fullsearchindex.json', 'all-documents.html',
              'moduleIndex.html', 'classIndex.html', 'nameIndex.html', 'undoccedSummary.html']


def plan(tier: str, seed: int) -> Dict[str, Any]:
    n = int(os.environ.get('VERIF_TASKS') or 0) or (260 if tier == 'quick' else 8000)
    tasks = [{'i': i, 'seed': derive(seed, PROPERTY, i), 'faults': 5 if tier == 'quick' else 8,
              'enumerate_truncations': tier == 'thorough' and i % 10 == 0} for i in range(n)]
    return {'tasks': tasks, 'budget_s': 80 if tier == 'quick' else 1800, 'task_timeout': 240 if tier == 'quick' else 900, 'selfcheck': 3}


def make_case(rng: Rng) -> Dict[str, Any]:
    kind = rng.sub('kind').weighted([('generated', 8), ('real', 2)])
    case: Dict[str, Any] = {'kind': kind}
    if kind == 'generated':
        prof = W.profile(reexport=0.6, roots=(1, 2), cyclic=rng.sub('cyc').chance(0.3), star=0.4, nested=0.3, fields=0.3,
                         zope=0.15, dup=0.3, dup_mixed=True, submodule_clash=0.25, module_reexport=0.2, docassign=0.3, docassign_modules=True)
        world = W.gen_world(rng.sub('world'), prof)
        case['world'] = world
        case['files'] = W.world_files(world)
        sched = schedule.sample(world['modules'], rng.sub('sched'))
        case['schedule'] = sched
    else:
        case['real'] = sorted(rng.sub('real').sample(REAL, rng.sub('n').randint(1, 2)))
        files: Dict[str, str] = {}
        for r in case['real']:
            base = os.path.join(TESTPKG, r)
            for dp, dn, fn in os.walk(base):
                dn[:] = sorted(d for d in dn if d != '__pycache__')
                for f in sorted(fn):
                    if f.endswith('.py'):
                        full = os.path.join(dp, f)
                        with open(full, encoding='utf-8', errors='surrogateescape') as fh:
                            files[os.path.relpath(full, TESTPKG)] = fh.read()
        case['files'] = files
    o = rng.sub('opts')
    case['docformat'] = o.choice(DOCFORMATS) if kind == 'generated' else 'epytext'
    case['theme'] = o.weighted([('classic', 3), ('readthedocs', 2), ('base', 1)])
    extra: List[str] = []
    if o.chance(0.3):
        extra.append('-W')
    v = o.weighted([('', 4), ('-q', 2), ('-v', 2), ('-vv', 1)])
    if v:
        extra.append(v)
    if o.chance(0.2):
        extra.append('--process-types')
    if o.chance(0.5):
        extra += ['--project-name', 'P']
    case['extra'] = extra
    return case


def victims_ranked(case: Dict[str, Any]) -> List[Tuple[str, float]]:
    """Files with weights: modules that others import from, and __init__.py, are where in-flight state exists."""
    files = sorted(case['files'])
    if case['kind'] != 'generated':
        return [(f, 2.0 if f.endswith('__init__.py') else 1.0) for f in files]
    world = case['world']
    indeg: Dict[str, int] = {}
    for a, b in world['truth']['edges']:
        indeg[b] = indeg.get(b, 0) + 1
    out = []
    for name, m in world['modules'].items():
        out.append((W.modpath(name, m['pkg']), 1.0 + 1.5 * indeg.get(name, 0) + (1.0 if m['pkg'] else 0.0)))
    return out


def plan_faults(rng: Rng, case: Dict[str, Any]) -> List[Dict[str, Any]]:
    files_b = {k: v.encode('utf-8', 'surrogateescape') for k, v in case['files'].items()}
    ranked = victims_ranked(case)
    nf = 1 if rng.chance(0.7) else 2
    faults = []
    used: Set[str] = set()
    for j in range(nf):
        r = rng.sub(j)
        cand = [(f, w) for f, w in ranked if f not in used]
        if not cand:
            break
        victim = r.weighted(cand)
        used.add(victim)
        kind = r.weighted([('src.torn', 4), ('src.zero_tail', 2), ('src.bitflip', 3), ('src.lost', 1), ('src.dup_block', 2),
                           ('src.misdirected', 1.5), ('src.garbage', 2), ('src.torn_utf8', 1), ('src.nul', 1)])
        faults.append(disk.plan_fault(r.sub('p'), files_b, victim, kind))
    return faults


def parses(data: bytes) -> bool:
    try:
        ast.parse(data)
        return True
    except BaseException:
        return False


def run_case(case: Dict[str, Any], faults: List[Dict[str, Any]]) -> Dict[str, Any]:
    """One simulated run: damage, run the CLI entry, judge.  Returns {'viols': [(sig, detail)], 'info': {...}}."""
    root = pytruth.scratch_dir('verif-c01-')
    try:
        src = os.path.join(root, 'src')
        files_b = {k: v.encode('utf-8', 'surrogateescape') for k, v in case['files'].items()}
        damaged: Dict[str, bytes] = {}
        for f in faults:
            damaged[f['victim']] = disk.apply_fault(files_b, f)
        changed = {k for k, v in damaged.items() if v != files_b[k]}
        for rel, data in files_b.items():
            p = os.path.join(src, rel)
            os.makedirs(os.path.dirname(p), exist_ok=True)
            with open(p, 'wb') as fh:
                fh.write(damaged.get(rel, data))
        out = os.path.join(root, 'out')
        if case['kind'] == 'generated':
            world = case['world']
            roots = [m for m in case['schedule'] if '.' not in m]
            paths = [os.path.join(src, W.modpath(r, world['modules'][r]['pkg']).replace('/__init__.py', '')) for r in roots]
            listing = simsystem.listing_for_schedule(src, world['modules'], case['schedule'])
        else:
            paths = [os.path.join(src, r) for r in case['real']]
            listing = None
        argv = ['--html-output', out, '--docformat', case['docformat'], '--theme', case['theme']] + case['extra'] + paths
        cwd = os.path.join(root, 'cwd')
        os.makedirs(cwd)
        old = os.getcwd()
        os.chdir(cwd)
        try:
            res = simsystem.run_main(argv, listing)
        finally:
            os.chdir(old)
        viols: List[Tuple[str, str]] = []
        kinds = '+'.join(sorted({f['kind'] for f in faults})) or 'none'
        info = {'exit': res['exit'], 'unparsable': 0, 'changed': len(changed), 'kinds': [f['kind'] for f in faults],
                'ondemand_broken': 0, 'cut_in_utf8': 0}
        if res['exc'] is not None:
            exc = res['exc']
            viols.append((f'aborted,exc={exc[0]},fault={kinds}', f'driver.main raised {exc[0]}: {exc[1]}\n{exc[2] if len(exc) > 2 else ""}'))
            return {'viols': viols, 'info': info}
        if res['exit'] not in (0, 2, 3):
            viols.append((f'exit-status={res["exit"]},fault={kinds}', f'driver.main returned {res["exit"]}'))
        system = res['system']
        stdout = res['stdout']
        quiet2 = False
        # (3) every file that no longer parses is named
        for rel in sorted(changed):
            data = damaged[rel]
            if not parses(data):
                info['unparsable'] += 1
                path = os.path.join(src, rel)
                # a file shadowed by a package of the same name is never read (as in Python): nothing to report
                analysed = system is None or any(isinstance(o, simsystem.model.Module) and str(o.source_path) == path
                                                 for o in system.allobjects.values())
                if analysed and not any(line.startswith(path + ':') for line in stdout.splitlines()):
                    viols.append((f'unparsable-file-not-named,fault={kinds}', f'{rel} does not parse after {faults} but no message starts with its path'))
            try:
                data.decode('utf-8')
            except UnicodeDecodeError:
                info['cut_in_utf8'] += 1
        # schedule seam self-check
        if listing is not None and system is not None:
            want = [m for m in case['schedule']]
            if system.sim_registered != want:
                raise RuntimeError(f'schedule seam: registered {system.sim_registered} instead of {want}')
        # core files
        for cf in CORE_FILES:
            if not os.path.exists(os.path.join(out, cf)):
                viols.append((f'core-file-missing,file={cf},fault={kinds}', f'{cf} was not written'))
        # (4) containment: undamaged modules are documented
        # Judged only when every damaged file no longer parses: a damaged file that still parses is just
        # another valid program, which may legitimately re-export or shadow what other modules define.
        all_broken = all(not parses(damaged[rel]) for rel in changed)
        if case['kind'] == 'generated' and system is not None and all_broken:
            world = case['world']
            bym: Dict[int, List[Any]] = {}
            for o in system.allobjects.values():
                m = simsystem.marker_of(o)
                if m is not None and not isinstance(o, simsystem.model.Module):
                    bym.setdefault(m, []).append(o)
            page_cache: Dict[str, bytes] = {}
            # the inventory and the all-documents page must list the healthy objects too
            try:
                from sim import net as _net
                with open(os.path.join(out, 'objects.inv'), 'rb') as fh:
                    inv_lines = _net.harness_decode(fh.read()) or []
                inv_names = {(_net.ref_parse_line(l) or ('',))[0] for l in inv_lines}
            except OSError:
                inv_names = set()
            try:
                with open(os.path.join(out, 'all-documents.html'), 'rb') as fh:
                    alldocs = fh.read()
            except OSError:
                alldocs = b''
            broken_mods = {n for n, m in world['modules'].items() if W.modpath(n, m['pkg']) in changed}
            for e in system.sim_log:
                if e[0] == 'enter' and e[2] > 0 and e[1] in broken_mods:
                    info['ondemand_broken'] += 1
            exotic = set(world['truth'].get('exotic', []))
            clashing = {d['collides_with'] for d in world['truth']['defs'].values() if isinstance(d.get('collides_with'), str)}
            for name, m in world['modules'].items():
                rel = W.modpath(name, m['pkg'])
                if rel in changed:
                    continue
                mobj = system.allobjects.get(name)
                if not isinstance(mobj, simsystem.model.Module):
                    if name in clashing:
                        # its package defines the same name: pydoctor keeps the module under a renamed key ("n 0")
                        mobj = next((o for k, o in system.allobjects.items() if isinstance(o, simsystem.model.Module)
                                     and k.startswith(name + ' ')), None)
                        if mobj is not None:
                            continue
                    viols.append((f'undamaged-module-missing,fault={kinds}', f'module {name} is not registered'))
                    continue
                if not os.path.exists(os.path.join(out, mobj.url)):
                    viols.append((f'undamaged-module-page-missing,fault={kinds}', f'{mobj.url} was not written for undamaged module {name}'))
                mpath = os.path.join(src, rel)
                for i_s, d in world['truth']['defs'].items():
                    if d['module'] != name or d['kind'] == 'field' or d.get('nodoc') or d.get('dup_of') or d.get('collides_with'):
                        continue
                    if 'dup' in exotic or 'onto_existing' in exotic:
                        continue
                    cands = [o for o in bym.get(int(i_s), []) if str(o.source_path) == mpath]
                    if len(cands) != 1:
                        viols.append((f'undamaged-definition-{"lost" if not cands else "duplicated"},kind={d["kind"]},fault={kinds}',
                                      f'M{i_s} ({d["kind"]} {d["name"]}) of undamaged module {name} is documented {len(cands)} times: {[c.fullName() for c in cands]}'))
                        continue
                    o = cands[0]
                    if not o.isVisible:
                        continue
                    if ' ' in o.fullName():
                        # it sits below a definition that a later one of the same name superseded (pydoctor keeps those
                        # under a renamed key and does not document them): e.g. re-exported into a module that its
                        # package shadows with a function of the same name
                        continue
                    page = o.page_object.url
                    if page not in page_cache:
                        try:
                            with open(os.path.join(out, page), 'rb') as fh:
                                page_cache[page] = fh.read()
                        except OSError:
                            page_cache[page] = b''
                            viols.append((f'page-missing,fault={kinds}', f'page {page} of M{i_s} was not written'))
                    if o.fullName() not in inv_names:
                        viols.append((f'definition-not-in-inventory,kind={d["kind"]},fault={kinds}', f'M{i_s} ({o.fullName()}) of undamaged module {name} is missing from objects.inv'))
                    if alldocs and f'id="{o.fullName()}"'.encode() not in alldocs:
                        viols.append((f'definition-not-in-search-documents,kind={d["kind"]},fault={kinds}', f'M{i_s} ({o.fullName()}) of undamaged module {name} is missing from all-documents.html'))
                    if page_cache[page] and f'M{i_s}M'.encode() not in page_cache[page]:
                        viols.append((f'definition-not-on-its-page,kind={d["kind"]},fault={kinds}', f'M{i_s} ({o.fullName()}) does not appear on {page}'))
        return {'viols': viols, 'info': info}
    finally:
        shutil.rmtree(root, ignore_errors=True)


def run_task(task: Dict[str, Any]) -> Dict[str, Any]:
    rng = Rng(task['seed'], 'c01')
    case = make_case(rng.sub('case'))
    plans: List[List[Dict[str, Any]]] = [[]]     # the fault-free run first
    for j in range(task.get('faults', 5)):
        plans.append(plan_faults(rng.sub('fault').sub(j), case))
    if task.get('enumerate_truncations'):
        # every truncation offset of one small victim
        files_b = {k: v.encode('utf-8', 'surrogateescape') for k, v in case['files'].items()}
        small = [k for k, v in sorted(files_b.items()) if len(v) <= 400]
        if small:
            victim = rng.sub('enum').choice(small)
            n = len(files_b[victim])
            # every truncation offset of a small file (capped at 160 runs per task: longer files are covered in strides
            # whose phase depends on the task, so that all offsets are reached across tasks)
            stride = max(1, (n + 159) // 160)
            phase = rng.sub('phase').below(stride)
            for off in range(phase, n + 1, stride):
                plans.append([{'kind': 'src.torn', 'victim': victim, 'offset': off}])
    return run_plans(case, plans)


def run_plans(case: Dict[str, Any], plans: List[List[Dict[str, Any]]]) -> Dict[str, Any]:
    violations: Dict[str, Dict[str, Any]] = {}
    h = hashlib.blake2b(digest_size=8)
    fired: Dict[str, int] = {}
    stats = {'runs': 0, 'unparsable_files': 0, 'ondemand_broken': 0, 'cut_in_utf8': 0, 'exits': {}, 'fault_free_runs': 0}
    for faults in plans:
        r = run_case(case, faults)
        stats['runs'] += 1
        if not faults:
            stats['fault_free_runs'] += 1
        info = r['info']
        stats['unparsable_files'] += info['unparsable']
        stats['ondemand_broken'] += info['ondemand_broken']
        stats['cut_in_utf8'] += info['cut_in_utf8']
        stats['exits'][str(info['exit'])] = stats['exits'].get(str(info['exit']), 0) + 1
        for k in info['kinds']:
            fired[k] = fired.get(k, 0) + 1
        h.update(repr((info['exit'], info['unparsable'], sorted(s for s, _ in r['viols']))).encode())
        for suffix, detail in r['viols']:
            sig = f'{PROPERTY}/{suffix}'
            if sig not in violations:
                violations[sig] = {'signature': sig, 'detail': detail, 'payload': {'case': case, 'plans': [faults]}}
    stats['fired'] = fired
    sample = {'kind': case['kind'], 'docformat': case['docformat'], 'extra': case['extra'],
              'schedule': case.get('schedule'), 'real': case.get('real'),
              'fault_plans': plans[1:4], 'files': sorted(case['files'])}
    return {'violations': [violations[k] for k in sorted(violations)], 'digest': h.hexdigest(), 'stats': stats, 'sample': sample}


def replay(payload: Dict[str, Any]) -> Dict[str, Any]:
    return run_plans(payload['case'], payload['plans'])


def liveness_violation(task: Dict[str, Any], dump: Any) -> Dict[str, Any]:
    return {'signature': f'{PROPERTY}/hang', 'detail': f'task {task} did not finish within the wall-clock backstop twice\n{str(dump)[-1500:]}',
            'payload': {'task': task}}


def minimise(v: Dict[str, Any]) -> Dict[str, Any]:
    """Shrink the fault parameters towards 0 / fewer faults while the signature persists."""
    import copy
    from sim import runner
    sig = v['signature']
    payload = v['payload']
    if 'plans' not in payload:
        return v
    best = payload
    tried = 0
    faults = payload['plans'][0]
    improved = True
    while improved and tried < 60:
        improved = False
        cands = []
        if len(faults) > 1:
            for j in range(len(faults)):
                cands.append(faults[:j] + faults[j + 1:])
        for j, f in enumerate(faults):
            for key in ('offset', 'at', 'start', 'count', 'length'):
                if isinstance(f.get(key), int) and f[key] > 0:
                    g = dict(f)
                    g[key] = f[key] // 2
                    cands.append(faults[:j] + [g] + faults[j + 1:])
            if f.get('flips') and len(f['flips']) > 1:
                g = dict(f)
                g['flips'] = f['flips'][:1]
                cands.append(faults[:j] + [g] + faults[j + 1:])
        for c in cands:
            tried += 1
            p = copy.deepcopy(best)
            p['plans'] = [c]
            status, res = runner.run_one(replay, p, task_timeout=240)
            if status == 'ok' and any(x['signature'] == sig for x in res['violations']):
                best, faults, improved = p, c, True
                break
    out = dict(v)
    out['payload'] = best
    out['minimised_from'] = {'faults_before': payload['plans'][0], 'faults_after': faults, 'candidates_tried': tried}
    return out


def coverage(stats: List[Dict[str, Any]], samples: List[Any]) -> Dict[str, Any]:
    runs = sum(s['runs'] for s in stats)
    fired: Dict[str, int] = {}
    exits: Dict[str, int] = {}
    for s in stats:
        for k, v in s['fired'].items():
            fired[k] = fired.get(k, 0) + v
        for k, v in s['exits'].items():
            exits[k] = exits.get(k, 0) + v
    return {
        'evaluations': runs,
        'distinct_nontrivial': sum(1 for s in stats if s['unparsable_files'] > 0),
        'rule': 'one evaluation = one complete driver.main run (options to inventory) on a source tree after the simulated disk damaged 0-2 files, '
                'under a seeded module schedule; a world counts as non-trivial when at least one of its damaged files no longer parses',
        'samples': samples,
        'worlds': len(stats),
        'fault_free_runs': sum(s['fault_free_runs'] for s in stats),
        'faults_fired': fired,
        'exit_statuses': exits,
        'probes': {
            'damaged_files_that_no_longer_parse': sum(s['unparsable_files'] for s in stats),
            'broken_module_reached_on_demand_from_another_analysis': sum(s['ondemand_broken'] for s in stats),
            'damaged_file_is_not_valid_utf8': sum(s['cut_in_utf8'] for s in stats),
        },
        'simulated_time': 'not applicable',
        'components': {'real': ['pydoctor.driver.main: options, System, astbuilder.parseFile on real files, HTML writer, search index, inventory'],
                       'stub': ['simulated disk (applies the damage before the run)', 'os.listdir order + model.sorted stand-in (schedule seam S1b)', 'MainSimSystem recording subclass']},
    }
