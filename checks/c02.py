"""C02 -- the object model is a coherent tree with a consistent name registry.

Simulated dimension: analysis histories (re-export moves x duplicate definitions
x import cycles x nested classes x field attributes x zope declarations) under
every module schedule.  Oracle: invariants I1-I8 on the state after analysis.
"""
from __future__ import annotations

from typing import Any, Dict, List

from sim import oracles
from . import _model

PROPERTY = 'C02'
LEVEL = 'exploration'
ASSUMPTIONS = [
    'only projects the world generator can express (see DESIGN.md 2.3); bounded to ~10 modules',
    'invariants are judged on the state after System.process() returned, as the property says; transient states inside reparent() are not judged',
    'summary-page file-name collisions (a root module called "index") are outside the generator name pool',
]

PROFILES = [
    ('moves',       3, dict(reexport=0.8, nested=0.4, roots=(1, 3))),
    ('multi-moves', 2, dict(reexport=0.8, multi_reexport=True, nested=0.4, roots=(1, 3))),
    ('dups',        2, dict(reexport=0.6, dup=0.5, dup_mixed=True, nested=0.3, fields=0.3)),
    ('cyclic',      3, dict(reexport=0.6, cyclic=True, dup=0.3, nested=0.3, star=0.4)),
    ('onto',        1, dict(reexport=0.9, onto_existing=0.6, dup=0.2)),
    ('zope',        2, dict(reexport=0.5, zope=1.0, cyclic=False, fields=0.3)),
    ('zope-cyclic', 1, dict(reexport=0.5, zope=1.0, cyclic=True)),
    ('kitchen',     2, dict(reexport=0.7, multi_reexport=True, dup=0.3, onto_existing=0.3, zope=0.3, docassign=0.3,
                            method_alias_reexport=0.4, module_reexport=0.4, fields=0.4, nested=0.4, cyclic=True, inconsistent=0.2)),
    ('inconsistent', 1, dict(reexport=0.3, inconsistent=0.6, defs=(2, 5))),
    ('inner',       2, dict(reexport=0.5, inner_defs=0.6, nested=0.3, roots=(1, 2), module_deco=0.3)),
    ('clash',       2, dict(reexport=0.5, roots=(1, 1), root_clash=0.8, nested=0.3, rebind_same=0.4, star=0.4)),
    ('rebind',      2, dict(reexport=0.9, roots=(1, 2), rebind_same=0.6, star=0.6, imports=(1, 4), shadow_import=0.3)),
]


def oracle(world: Dict[str, Any], system: Any) -> List[Any]:
    return oracles.check_tree(system)


run_task = _model.make_task_runner(PROPERTY, PROFILES, oracle)
replay = _model.make_replay(PROPERTY, oracle)


def plan(tier: str, seed: int) -> Dict[str, Any]:
    return _model.std_plan(PROPERTY, tier, seed, 1500, 40000)


def minimise(v: Dict[str, Any]) -> Dict[str, Any]:
    from sim import minimise as M
    return M.minimise_world_violation(v, replay)


def coverage(stats: List[Dict[str, Any]], samples: List[Any]) -> Dict[str, Any]:
    cov = _model.base_coverage(
        stats, samples,
        'one evaluation = one (world, schedule) model build followed by invariants I1-I8 over the whole registry; '
        'distinct = distinct interleaving ids (nested processModule trace + reads of half-built modules)',
        _model.COMPONENTS)
    return cov
