"""Regenerate MANIFEST.json from the table below (run: python3 tools_manifest.py)."""
import json

Q = '/venv/bin/python -B /verif/check.py {p} --tier quick'
T = '/venv/bin/python -B /verif/check.py {p} --tier thorough'
R = '/venv/bin/python -B /verif/check.py {p} --replay {{path}}'

CHECKS = {
 'C02': dict(cat='exploration', tech='deterministic simulation: seeded schedule exploration of analysis histories + registry invariants',
   text='Seeded search over generated projects whose analysis history contains re-export moves, duplicate definitions, import cycles, nested classes, field attributes and zope declarations, each analysed by the real model builder under every reachable module schedule (exhaustively per world when <= 720 schedules, else sampled); invariants I1-I8 over the whole registry after each run. Evidence, not proof: a clean batch says no generated history of that size broke an invariant.',
   note='Trusted: the world generator, the recording-only System subclass, the invariant checker (reads public attributes only). Known findings (genuine defects) are matched by root-cause signature and listed in known_findings.json.', ref='DESIGN.md 3/C02'),
 'C04': dict(cat='exploration', tech='deterministic simulation: schedule exploration + reference binding model validated against CPython',
   text='Secondary claim: resolution happens during analysis and depends on which modules are already analysed; every schedule of each generated acyclic project is run and every name bound in every module/class namespace, every attribute of a module alias, every dotted name through a class (attribute lookup along the reference MRO, including aliases bound in base-class bodies) and every recorded base class is compared with a binding table that is itself validated by importing the materialised project with CPython in the same task.',
   note='Trusted: generator ground truth (cross-checked against CPython every task); quantifier restricted as in the property (acyclic, unique names, one binding per scope).', ref='DESIGN.md 3/C04'),
 'C05': dict(cat='exploration', tech='deterministic simulation: schedule exploration + reference C3 model validated against type.__mro__',
   text='Secondary claim: which of the two base-resolution passes resolves a base depends on the schedule. Sampled hierarchies (3-12 classes over several modules, subscripted bases, overriding members without docstrings, deliberately inconsistent orders) are analysed under every schedule; Class.mro(), Class.find() and inherited docstrings are compared with a 15-line C3 reference (validated against CPython for each consistent world); where Python rejects the hierarchy a message of section mro naming the class is required.',
   note='The exhaustive five-class enumeration in the quantifier is bounded model checking and is not attempted; classes whose bases are reached only through import chains (not guaranteed to resolve by C04) are not judged.', ref='DESIGN.md 3/C05'),
 'C06': dict(cat='exploration', tech='deterministic simulation: seeded/exhaustive module-schedule exploration with cross-schedule state comparison',
   text='Core claim. The processing schedule (order of module registration = System.unprocessed_modules) is owned by the simulator; for every generated world all reachable schedules (<= 720) or the shipped order, its reverse and seeded samples are run through the real builder, and a canonical dump keyed by object identity (type, kind, docstring, resolved bases, linearisation, location for objects with <= 1 re-exporter) must be equal across schedules; for cyclic worlds bases and linearisation only, as the property says. Interleavings are measured by hashing the nested processModule trace and reads of half-built modules.',
   note='Trusted: generator, dump projection, signature classifier. Real trees (the maintainers test packages, pairs of them, and in the thorough tier pure-Python distributions from /venv) run through the os.listdir + model.sorted seam. Root-cause classes still open are recorded as known findings; the others were repaired in /repo (fix: commits, see known_findings.json).', ref='DESIGN.md 3/C06'),
 'C07': dict(cat='exploration', tech='deterministic simulation: schedule exploration + reference re-export model',
   text='Generated packages with one re-exporter per object (package or sibling module; plain, renamed, star import) and consumers inside the package or in another root importing from the defining module, the re-exporter or both; every schedule; oracle = documented re-export rule for the location (exactly once, under the exported name, nothing left at the old name) and the binding truth for every reference: import alias, base class, old/new qualified name of the object and of its members (find_object), Name.member through an alias, and - with the real linkers - docstring cross-references by local / old / new qualified name and annotations, whose href must be the url of the one documented object; the moved object must also be the contents entry of the re-exporting module.',
   note='Re-exports through import chains or aliases are outside the quantifier and accepted at either location. Links are checked through the real linker objects on the model, not by crawling rendered pages.', ref='DESIGN.md 3/C07'),
 'C01': dict(cat='fault_enumeration', tech='deterministic simulation with fault injection: simulated-disk damage of source files x module schedules, full CLI runs',
   text='Containment part of C01. The real CLI entry point (options, model build, HTML, search index, inventory) runs in a forked child on generated multi-module worlds and on copies of the maintainers test packages after a simulated disk damaged one or two source files (torn, zero-filled tail, bit flips, lost, duplicated block, misdirected write, garbage, NUL bytes, cut inside a UTF-8 sequence), under a seeded processing schedule so that a broken module is reached at top level or on demand from inside another analysis. Oracle: main returns 0, 2 or 3, never raises or hangs; every analysed file that no longer parses is named at the start of a message; the summary, search and inventory files exist; and, when all damage is unparsable, every definition of every undamaged module is documented exactly once and appears on its page. Thorough tier enumerates every truncation offset of small files.',
   note='The "for all source trees" half of the quantifier is input space and only sampled. I/O errors are not injected (not promised). Four aborts found on valid-but-unusual inputs or damaged trees were repaired in /repo.', ref='DESIGN.md 3/C01'),
 'C08': dict(cat='fault_enumeration', tech='deterministic simulation with fault injection: exceptions raised at seeded instants inside guarded parser/renderer extents via sys.monitoring, fault-free twin comparison',
   text='Containment part of C08. Full driver.main runs (own process each) on generated projects whose docstrings carry real markup in each docformat (epytext, restructuredtext, google, numpy, plaintext; process-types on/off). A fault-free twin records every guarded extent (parser callee of parse_docstring, to_stan callee of safe_to_stan, the calls inside the try of get_summary) with its number of function entries; each fault run then raises one exception (19 classes incl. RecursionError, MemoryError, ImportError, StopIteration) at a drawn (operation, call, event) inside an extent, in pydoctor, docutils, twisted or stdlib frames alike. Oracle: the run completes with status 0/2/3; when the failure reaches the guard it is reported against the object (parse_errors, message naming its file, status 2/3) and the page shows the complete docstring text; every output file outside the pages that show the target and outside the summary/search/inventory files is byte-identical to the twin; registered objects and reports for other objects are unchanged. A fault-free batch plants fatal epytext and recoverable reST errors and checks report + plain-text fallback. In the fault-free twin itself the text of every docstring must reach the page of its object (rendered or as plain text), and a twin that does not finish within 100 s of wall-clock twice in a row is reported as not terminating.',
   note='The "for all strings" half of the quantifier is input space and not claimed. Only the operations pydoctor guards are injected. One escape (docutils turning a settings failure into sys.exit, reproducible with a malformed ./docutils.conf) was repaired in /repo.', ref='DESIGN.md 3/C08'),
 'C17': dict(cat='fault_enumeration', tech='deterministic simulation with fault injection: two-party producer / simulated network / consumer run with seeded transfer and line faults, plus Sphinx as third reader',
   text='Core claim. Producer: real pydoctor documents a generated project (hidden/private objects, re-exports, nested classes, duplicates) and writes objects.inv. Network: a simulated urllib3 pool under the real requests + CacheControl + FileCache stack serves those bytes, or synthetic inventories (names with spaces, $ shorthand, non-Python domains), under a seeded fault plan: connection drop, timeout, HTTP error pages, empty body, truncation, reset or short Content-Length mid-body, bit flips, wrong compression, damaged header, 1-byte reads, transport gzip, garbage, non-UTF-8 bytes, and 1-3 line-level faults from 16 mangling operators, with an empty, corrupt or disabled cache and optional second runs. Consumer: driver.get_system (or main) with --intersphinx. Oracle: never raises; a transfer unusable as a whole (decided by the harness on the bytes delivered) is reported in section sphinx; every untouched py: line resolves through getLink to base/location with $ expanded, and through the linker of the consumer (link_to) to the same URL, also when the consumer is a package that shares its top-level name with entries of the inventory. Round trip: names and locations read by pydoctor and by Sphinx InventoryFile equal the visible reachable objects, each page and anchor exists. Thorough tier enumerates every truncation offset and header/zlib-prefix bit flips of small inventories.',
   note='Cache expiry is outside the statement and not judged. One abort (IndexError on a line cut after the priority column) was repaired in /repo.', ref='DESIGN.md 3/C17'),
 'C18': dict(cat='exploration', tech='deterministic simulation: seeded hash seed / directory-listing order / clock / output-history variants of full runs, byte comparison of output trees',
   text='Core claim. Each world (generated multi-root projects and copies of the maintainers\' test packages, with swarm-chosen options) is rendered by the real CLI entry point in a fresh interpreter per run: a reference run (hash seed 0, natural listing, clock T0, empty output directory) and variants that change one dimension at a time (PYTHONHASHSEED, per-directory listing permutation incl. pydoctor\'s own theme/extension directories, simulated now 1970-2100 + time zone, re-run into a directory holding a previous result made under the same or another seed) and then all at once; sources, options and build time (SOURCE_DATE_EPOCH or --buildtime) are equal. Oracle: same paths, same bytes, same symlink targets.',
   note='In-process reuse (process-global id counters) is deliberately not compared: the property quantifies over hash seed, listing order and output-directory state. One defect (project name guessed from a set) was repaired in /repo.', ref='DESIGN.md 3/C18'),
}

NA = {
 'C01': 'pending: check under construction (storage-fault containment)',
 'C03': 'pure function of one module AST; the oracle the property asks for is CPython itself (differential testing over programs, another technique family); no schedule, clock, history or fault in statement or mechanism',
 'C08': 'pending: check under construction (injected parser/renderer failure containment)',
 'C09': 'pure function of (docstring text, docformat); structure-aware generation with a text oracle is property-based testing, not simulation',
 'C10': 'pure function of (project text, docformat): escaping/well-formedness has no schedule, clock, history or fault dimension',
 'C11': 'function of one run\'s complete output; render order is a deterministic function of the input, nothing for a scheduler to choose (the S1-dependent slice, links to re-exported objects, is checked under C07)',
 'C12': 'function of (project, privacy rules, theme) for one run; no nondeterminism or fault in statement or mechanism',
 'C13': 'pure function of (pattern, name, rule list); the only state (privacy cache) is keyed by name over rules that never change during a run',
 'C14': 'pure function of one function-definition AST node',
 'C15': 'pure function of one expression AST and two integer options',
 'C16': 'line arithmetic is a pure function of source layout; accounting is one counter incremented where the message is emitted; exit-status range is asserted under C01/C08 instead',
 'C17': 'pending: check under construction (two-party inventory simulation)',
 'C18': 'pending: check under construction (hash seed / listing order / clock / output history)',
 'C19': 'pure function of (tree, pruning actions, extension timings) over a small bounded product the property itself proposes to enumerate: bounded model checking, not simulation',
 'C20': 'pure function of (argv, config file contents); the statement says nothing about unreadable or changing files',
}


def main() -> None:
    import sys
    sys.path.insert(0, '/verif')
    checks = []
    for p, c in sorted(CHECKS.items()):
        checks.append({
            'property_id': p,
            'quick_cmd': Q.format(p=p),
            'thorough_cmd': T.format(p=p),
            'evidence_file': f'/verif/evidence/{p}.json',
            'replay_cmd_template': R.format(p=p),
            'engine': 'pydoctor-dst',
            'level_claimed': {'category': c['cat'], 'text': c['text'], 'design_ref': c['ref']},
            'level_note': c['note'],
            'technique': c['tech'],
        })
    man = {
        'version': 1,
        'setup_cmd': 'mkdir -p /verif/evidence /verif/replays && /venv/bin/python -B -c "import sys; sys.path.insert(0,\'/repo\'); import pydoctor, hypothesis, sphinx, requests, cachecontrol; print(\'ok\', pydoctor.__file__)"',
        'hooks': {
            'guard': 'PYDOCTOR_VERIF',
            'enable': 'no hooks in /repo: every seam is reached from outside (System subclass via the public builder API, os.listdir / module-level name rebinding, sys.monitoring, requests transport adapter); the guard name is unused',
            'baseline_off_cmd': 'cd /repo && /venv/bin/python -m pytest -ra -q -p no:cacheprovider --timeout=900 --continue-on-collection-errors',
            'source_commits': [],
            'add_only': True,
        },
        'engines': [{'name': 'pydoctor-dst', 'path': '/verif/sim', 'serves_properties': sorted(CHECKS),
                     'kind_free_text': 'deterministic simulator: labelled counter-mode PRNG from VERIF_SEED, fork-per-run from an import-only zygote, seeded world generator with CPython-validated ground truth, schedule/fault seams, replay files, delta-debugging minimiser'}],
        'checks': checks,
        'not_applicable': [{'property_id': p, 'reason': r} for p, r in sorted(NA.items()) if p not in CHECKS],
        'notes': 'Exit 0 = held (KNOWN-FINDING lines allowed), 1 = VIOLATION line(s), 2 = harness error (never a verdict). Fix commits in /repo: see known_findings.json (status=fixed).',
    }
    with open('/verif/MANIFEST.json', 'w') as f:
        json.dump(man, f, indent=1)
    print('checks:', [c['property_id'] for c in checks], 'n/a:', len(man['not_applicable']))


if __name__ == '__main__':
    main()
