"""Print the worlds stored in replay files (triage aid).  --original shows the unminimised case where recorded."""
import json, glob, sys
sys.path.insert(0, '/verif')
from sim import world as W
orig = '--original' in sys.argv
for f in sorted(a for a in sys.argv[1:] if not a.startswith('--')):
    d = json.load(open(f))
    print('=' * 30, d['expect']['signature'], d.get('minimised_from'), 'task', d.get('tier'), d.get('task_index'))
    pl = d['payload']
    if orig and d.get('original_payload'):
        pl = d['original_payload']
        print(d.get('original_detail'))
    else:
        print(d['detail'])
    if 'world' in pl:
        for k, t in W.render_world(pl['world']).items():
            print('####', k); print(t)
    for k in pl:
        if k != 'world':
            print(k, '=', json.dumps(pl[k])[:1500])
