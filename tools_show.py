"""Print the worlds stored in replay files (triage aid)."""
import json, glob, sys
sys.path.insert(0, '/verif')
from sim import world as W
for f in sorted(sys.argv[1:]):
    d = json.load(open(f))
    print('=' * 30, d['expect']['signature'], d.get('minimised_from'))
    print(d['detail'])
    pl = d['payload']
    if 'world' in pl:
        for k, t in W.render_world(pl['world']).items():
            print('####', k); print(t)
    for k in pl:
        if k != 'world':
            print(k, '=', json.dumps(pl[k])[:1500])
